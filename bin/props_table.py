"""Per-property configuration of the driver (shards, builds, budgets, event floors, evidence text)."""

TRUST = [
    "secp256k1 verification and blake3 through saito_core::core::util::crypto (thin wrappers) are trusted by the oracles",
    "rustc / cargo and the harness code itself",
    "only executed paths are judged: held on the executions listed in coverage, not verified",
]

PROPS = {
    "C10": {
        "level": "fault_enumeration",
        "builds": ["prod", "chk"],
        "shards": {"quick": 4, "thorough": 16},
        "chk_shards": {"quick": 2, "thorough": 8},
        "timeout": {"quick": 300, "thorough": 3000},
        "rule": "for each decoder and each valid seed encoding (one per shape class of the corpus built with the real producer): every truncation length, every u32 count/length field set to 19 boundary values, every enum tag byte 0..255, trailing bytes, plus seeded random flips / splices / random strings; each call under catch_unwind with a counting allocator. distinct = (decoder, seed, class, position, value); non-trivial = input differs from the intact encoding",
        "exhaustive_possible": False,
        "floors": {"quick": {"evaluations": 20000, "class.truncation": 5000, "class.count-field": 1000, "class.tag-byte": 5000}},
        "level_text": "fault enumeration over malformed encodings: every truncation, every count/length field at boundary values and every tag byte of one valid encoding per shape class and decoder, plus random corruption; the oracle is the outcome (Ok/Err/panic) and the peak allocation of each real decoder call. Chosen because the property quantifies over byte strings and the decoders are pure functions, so the faults can be enumerated per field",
        "level_note": "seed encodings come from an 8-block honest chain; formats only reachable inside saito-wasm are not exercised; panics are attributed by source file and masked message",
        "technique": "runtime monitor: catch_unwind + counting allocator around real decoder calls over enumerated corruptions (prod and overflow-checked builds)",
        "assumptions": TRUST + ["decoders without a Result type (GhostChainSync, ApiMessage) are judged through Message::deserialize; GoldenTicket and Wallet disk decoders are called directly"],
    },
}
