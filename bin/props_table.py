"""Per-property configuration of the driver (shards, builds, budgets, event floors, evidence text)."""

TRUST = [
    "secp256k1 verification and blake3 through saito_core::core::util::crypto (thin wrappers) are trusted by the oracles",
    "rustc / cargo and the harness code itself",
    "only executed paths are judged: held on the executions listed in coverage, not verified",
]

PROPS = {
    "C09": {
        "level": "exploration",
        "builds": ["prod"],
        "shards": {"quick": 4, "thorough": 16},
        "timeout": {"quick": 300, "thorough": 3000},
        "rule": "generated structurally valid values of every format (all enum variants, 0/254/255 slips, empty / 1 MiB payloads, 0..8 hops, every integer field drawn from {0,1,2^8,2^16,2^32,2^63,2^64-1} or random) plus the real values of an honest chain (fee, golden-ticket, routed, rebroadcast txs) and one message of every tag; oracle: decode(encode(v)) == v field-wise, encode(decode(b)) == b, predicted size, hash / signature validity / acceptance verdict unchanged across wire and disk. distinct = (format, shape or field vector)",
        "floors": {"quick": {"evaluations": 10000, "values.slip": 2000, "values.transaction": 2000, "values.block-random": 500, "values.message": 30, "values.block-disk": 5}},
        "level_text": "exploration with generated values: round-trip, size, hash, signature-validity and verdict oracles evaluated on tens of thousands of generated values per run and on real producer output; right level because the property is a universally quantified equation over values that a generator can sample densely but not enumerate",
        "level_note": "equality is on consensus fields (cached / derived fields are recomputed); formats that only saito-wasm uses are not exercised",
        "technique": "runtime monitor: round-trip / identity oracle over generated and real values of every format",
        "assumptions": TRUST,
    },
    "C18": {
        "level": "exploration",
        "builds": ["prod"],
        "shards": {"quick": 4, "thorough": 16},
        "timeout": {"quick": 300, "thorough": 3000},
        "exhaustive_possible": True,
        "rule": "blocks of n payments built by the real producer where bit i of a pattern decides whether tx i touches the light client's key; ALL 2^n patterns for n <= 8 (quick) / 10 (thorough), random patterns up to 64 txs, plus every block of an honest chain against three key lists; oracle: header / id / hash / signature equal, touching txs present in full, placeholder counts cover the omitted positions, merkle root recomputed from the lite block (before and after the wire) equals the header's, hash survives the wire. distinct = (n, realised pattern, key-list size)",
        "floors": {"quick": {"evaluations": 500, "class.merged-placeholders": 100, "class.unmerged-placeholders": 50, "class.no-placeholder": 5}},
        "level_text": "exploration, exhaustive over all touch patterns up to the stated n: the merging of adjacent placeholders depends only on the pattern, so enumerating patterns enumerates the behaviours of generate_lite_block",
        "level_note": "the HTTP route of saito-rust that serves lite blocks is not exercised; the recomputation uses the repository's own MerkleTree::generate as the client algorithm",
        "technique": "runtime monitor: projection oracle (full vs lite block) over enumerated touch patterns",
        "assumptions": TRUST,
    },
    "C10": {
        "level": "fault_enumeration",
        "builds": ["prod", "chk"],
        "shards": {"quick": 4, "thorough": 16},
        "chk_shards": {"quick": 2, "thorough": 8},
        "timeout": {"quick": 300, "thorough": 3000},
        "rule": "for each decoder and each valid seed encoding (one per shape class of the corpus built with the real producer): every truncation length, every u32 count/length field set to 19 boundary values, every enum tag byte 0..255, trailing bytes, plus seeded random flips / splices / random strings; each call under catch_unwind with a counting allocator. distinct = (decoder, seed, class, position, value); non-trivial = input differs from the intact encoding",
        "exhaustive_possible": False,
        "floors": {"quick": {"evaluations": 20000, "class.truncation": 5000, "class.count-field": 1000, "class.tag-byte": 5000}},
        "level_text": "fault enumeration over malformed encodings: every truncation, every count/length field at boundary values and every tag byte of one valid encoding per shape class and decoder, plus random corruption; the oracle is the outcome (Ok/Err/panic) and the peak allocation of each real decoder call. Chosen because the property quantifies over byte strings and the decoders are pure functions, so the faults can be enumerated per field",
        "level_note": "seed encodings come from an 8-block honest chain; formats only reachable inside saito-wasm are not exercised; panics are attributed by source file and masked message",
        "technique": "runtime monitor: catch_unwind + counting allocator around real decoder calls over enumerated corruptions (prod and overflow-checked builds)",
        "assumptions": TRUST + ["decoders without a Result type (GhostChainSync, ApiMessage) are judged through Message::deserialize; GoldenTicket and Wallet disk decoders are called directly"],
    },
}
