//! Small deterministic PRNG (xoshiro256**), seeded through splitmix64. All random choices of
//! the harness come from here so that `VERIF_SEED` reproduces workloads (modulo the
//! per-process randomness of the code under test, see DESIGN 2.4).

#[derive(Clone, Debug)]
pub struct Rng {
    s: [u64; 4],
}

fn splitmix(x: &mut u64) -> u64 {
    *x = x.wrapping_add(0x9E37_79B9_7F4A_7C15);
    let mut z = *x;
    z = (z ^ (z >> 30)).wrapping_mul(0xBF58_476D_1CE4_E5B9);
    z = (z ^ (z >> 27)).wrapping_mul(0x94D0_49BB_1331_11EB);
    z ^ (z >> 31)
}

impl Rng {
    pub fn new(seed: u64) -> Rng {
        let mut x = seed;
        Rng {
            s: [
                splitmix(&mut x),
                splitmix(&mut x),
                splitmix(&mut x),
                splitmix(&mut x),
            ],
        }
    }
    pub fn next(&mut self) -> u64 {
        let result = self.s[1].wrapping_mul(5).rotate_left(7).wrapping_mul(9);
        let t = self.s[1] << 17;
        self.s[2] ^= self.s[0];
        self.s[3] ^= self.s[1];
        self.s[1] ^= self.s[2];
        self.s[0] ^= self.s[3];
        self.s[2] ^= t;
        self.s[3] = self.s[3].rotate_left(45);
        result
    }
    /// uniform in 0..n (n > 0)
    pub fn below(&mut self, n: u64) -> u64 {
        if n == 0 {
            return 0;
        }
        self.next() % n
    }
    pub fn range(&mut self, lo: u64, hi_inclusive: u64) -> u64 {
        lo + self.below(hi_inclusive - lo + 1)
    }
    pub fn chance(&mut self, num: u64, den: u64) -> bool {
        self.below(den) < num
    }
    pub fn pick<'a, T>(&mut self, items: &'a [T]) -> &'a T {
        &items[self.below(items.len() as u64) as usize]
    }
    pub fn bytes(&mut self, n: usize) -> Vec<u8> {
        let mut v = Vec::with_capacity(n);
        while v.len() < n {
            let x = self.next().to_le_bytes();
            for b in x {
                if v.len() < n {
                    v.push(b);
                }
            }
        }
        v
    }
    pub fn hash32(&mut self) -> [u8; 32] {
        let mut h = [0u8; 32];
        h.copy_from_slice(&self.bytes(32));
        h
    }
    pub fn shuffle<T>(&mut self, items: &mut [T]) {
        for i in (1..items.len()).rev() {
            let j = self.below(i as u64 + 1) as usize;
            items.swap(i, j);
        }
    }
}
