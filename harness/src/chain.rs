//! Reference ledger (independent replay in exact arithmetic), block store and the honest chain
//! builder that produces material through the real `Block::create`.
use std::collections::{BTreeMap, HashMap};
use std::rc::Rc;

use saito_core::core::consensus::block::Block;
use saito_core::core::consensus::transaction::{Transaction, TransactionType};
use saito_core::core::defs::Timestamp;

use crate::rng::Rng;
use crate::world::*;

// ---------------------------------------------------------------------------------------------
// reference ledger

#[derive(Clone, Debug, Default)]
pub struct RefLedger {
    /// unspent outputs by 59-byte key
    pub utxo: BTreeMap<[u8; 59], OutRef>,
    pub tip_id: u64,
    pub tip: Hash,
    /// amount issued by block 1 (sum of all its outputs)
    pub issued: u128,
}

pub const TYPE_BOUND: u8 = 9;
pub const TYPE_STAKE: u8 = 8;

impl RefLedger {
    /// literal forward application of a block: remove the input keys as serialized, insert the
    /// outputs keyed by (block id, position of tx, position of slip); amount-0 slips never enter.
    pub fn apply(&self, block: &Block) -> RefLedger {
        let mut next = self.clone();
        next.tip_id = block.id;
        next.tip = block.hash;
        let mut ordinal: u64 = 0;
        for tx in &block.transactions {
            for input in &tx.from {
                if input.amount == 0 {
                    continue;
                }
                let k = ref_key(
                    &input.public_key,
                    input.block_id,
                    input.tx_ordinal,
                    input.slip_index,
                    input.amount,
                    input.slip_type as u8,
                );
                next.utxo.remove(&k);
            }
            for (idx, output) in tx.to.iter().enumerate() {
                if output.amount == 0 {
                    continue;
                }
                let o = OutRef {
                    owner: output.public_key,
                    amount: output.amount,
                    block_id: block.id,
                    tx_ordinal: ordinal,
                    slip_index: idx as u8,
                    slip_type: output.slip_type as u8,
                };
                if block.id == 1 && block.previous_block_hash == [0; 32] {
                    next.issued += output.amount as u128;
                }
                next.utxo.insert(o.key(), o);
            }
            if tx.transaction_type == TransactionType::SPV {
                ordinal += tx.txs_replacements as u64;
            } else {
                ordinal += 1;
            }
        }
        next
    }

    pub fn in_window(&self, o: &OutRef, gp: u64) -> bool {
        o.block_id >= self.tip_id.saturating_sub(gp)
    }

    /// spendable, in-window, value-carrying (non-Bound) outputs
    pub fn spendable(&self, gp: u64) -> Vec<OutRef> {
        let mut v: Vec<OutRef> = self.utxo
            .values()
            .filter(|o| self.in_window(o, gp) && o.slip_type != TYPE_BOUND)
            .cloned()
            .collect();
        // (the map is hash-ordered: sorted so that a seed selects the same outputs in every process)
        v.sort_by_key(|o| o.key());
        v
    }

    pub fn owned_by(&self, pk: &PK, gp: u64) -> Vec<OutRef> {
        let mut v: Vec<OutRef> = self.utxo
            .values()
            .filter(|o| {
                &o.owner == pk
                    && self.in_window(o, gp)
                    && o.slip_type != TYPE_BOUND
                    && o.slip_type != TYPE_STAKE
            })
            .cloned()
            .collect();
        v.sort_by_key(|o| o.key());
        v
    }

    /// outputs that a wallet-style builder may safely spend (not about to be rebroadcast)
    pub fn safe_owned_by(&self, pk: &PK, gp: u64) -> Vec<OutRef> {
        self.owned_by(pk, gp)
            .into_iter()
            .filter(|o| o.block_id + gp > self.tip_id + 2)
            .collect()
    }

    pub fn sum_spendable(&self, gp: u64) -> u128 {
        self.spendable(gp).iter().map(|o| o.amount as u128).sum()
    }
}

// ---------------------------------------------------------------------------------------------
// block store

pub struct Stored {
    pub bytes: Vec<u8>,
    /// parsed + generated copy (for reading fields; never handed to a node)
    pub block: Block,
    pub id: u64,
    pub hash: Hash,
    pub prev: Hash,
    pub ts: Timestamp,
    pub has_gt: bool,
    /// false when the generator deliberately made this block invalid
    pub valid: bool,
    pub tag: String,
}

#[derive(Default)]
pub struct Store {
    pub map: HashMap<Hash, Stored>,
    ledgers: HashMap<Hash, Rc<RefLedger>>,
    pub order: Vec<Hash>,
}

impl Store {
    pub fn new() -> Store {
        Store::default()
    }
    /// store a block exactly as it will cross the wire
    pub fn put(&mut self, block: &Block, valid: bool, tag: &str) -> Hash {
        let bytes = block_bytes(block);
        self.put_bytes(bytes, valid, tag)
    }
    pub fn put_bytes(&mut self, bytes: Vec<u8>, valid: bool, tag: &str) -> Hash {
        let mut parsed = Block::deserialize_from_net(&bytes).expect("stored block must decode");
        // generate() may legitimately fail (double spend inside block); the hash is set before
        let _ = parsed.generate();
        let h = parsed.hash;
        if !self.map.contains_key(&h) {
            self.order.push(h);
        }
        self.map.insert(
            h,
            Stored {
                bytes,
                id: parsed.id,
                hash: h,
                prev: parsed.previous_block_hash,
                ts: parsed.timestamp,
                has_gt: parsed.has_golden_ticket,
                block: parsed,
                valid,
                tag: tag.to_string(),
            },
        );
        h
    }
    pub fn get(&self, h: &Hash) -> &Stored {
        self.map.get(h).expect("unknown block hash")
    }
    pub fn has(&self, h: &Hash) -> bool {
        self.map.contains_key(h)
    }
    /// genesis .. h (inclusive); stops at the first unknown parent
    pub fn ancestors(&self, h: &Hash) -> Vec<Hash> {
        let mut v = vec![];
        let mut cur = *h;
        while let Some(s) = self.map.get(&cur) {
            v.push(cur);
            if s.prev == [0; 32] {
                break;
            }
            cur = s.prev;
        }
        v.reverse();
        v
    }
    pub fn is_ancestor(&self, anc: &Hash, of: &Hash) -> bool {
        let mut cur = *of;
        loop {
            if &cur == anc {
                return true;
            }
            match self.map.get(&cur) {
                Some(s) if s.prev != [0; 32] => cur = s.prev,
                _ => return false,
            }
        }
    }
    /// whole ancestry known and every block valid by construction
    pub fn chain_valid(&self, h: &Hash) -> bool {
        let anc = self.ancestors(h);
        if anc.is_empty() {
            return false;
        }
        let first = self.get(&anc[0]);
        if first.prev != [0; 32] {
            return false;
        }
        anc.iter().all(|a| self.get(a).valid)
    }
    pub fn ledger(&mut self, h: &Hash) -> Rc<RefLedger> {
        if let Some(l) = self.ledgers.get(h) {
            return l.clone();
        }
        let anc = self.ancestors(h);
        let mut cur: Rc<RefLedger> = Rc::new(RefLedger::default());
        for a in anc {
            if let Some(l) = self.ledgers.get(&a) {
                cur = l.clone();
                continue;
            }
            let next = Rc::new(cur.apply(&self.map.get(&a).unwrap().block));
            self.ledgers.insert(a, next.clone());
            cur = next;
        }
        cur
    }
    pub fn forget_ledgers(&mut self) {
        self.ledgers.clear();
    }
}

// ---------------------------------------------------------------------------------------------
// honest builder

pub struct Builder {
    pub params: Params,
    pub actors: Vec<Actor>,
    pub store: Store,
    pub genesis: Hash,
    pub genesis_ts: Timestamp,
    /// producer nodes keyed by the tip they sit on
    producers: Vec<(Hash, LNode)>,
    pub max_producers: usize,
    pub mined: u64,
}

#[derive(Clone, Debug, Default)]
pub struct BlockSpec {
    /// ms after the parent's timestamp
    pub gap: u64,
    pub txs: Vec<Transaction>,
    pub with_gt: bool,
    /// index of the actor whose key solves (and is paid by) the golden ticket
    pub gt_miner: usize,
}

impl Builder {
    pub fn creator(&self) -> &Actor {
        &self.actors[0]
    }

    /// new universe with a genesis block issuing `issuance[i]` to actor i (several slips each)
    pub async fn new(params: &Params, n_actors: usize, issuance: &[Vec<u64>]) -> Builder {
        let actors = actors(n_actors);
        let mut b = Builder {
            params: params.clone(),
            actors,
            store: Store::new(),
            genesis: [0; 32],
            genesis_ts: T0,
            producers: vec![],
            max_producers: 6,
            mined: 0,
        };
        let mut node = LNode::new(&b.actors[0], params);
        let mut iss: Vec<(PK, u64)> = vec![];
        for (i, amounts) in issuance.iter().enumerate() {
            for a in amounts {
                iss.push((b.actors[i].pk, *a));
            }
        }
        let g = make_genesis(&node, T0, &iss).await;
        let h = b.store.put(&g, true, "genesis");
        b.genesis = h;
        let r = node.add_bytes(&b.store.get(&h).bytes.clone()).await;
        assert_eq!(r, Some(Added::Ok(true)), "genesis must be accepted");
        b.producers.push((h, node));
        b
    }

    /// a node whose longest chain ends at `tip` (replayed from the store when not cached)
    pub async fn producer_at(&mut self, tip: &Hash) -> LNode {
        if let Some(pos) = self.producers.iter().position(|(h, _)| h == tip) {
            return self.producers.remove(pos).1;
        }
        let mut node = LNode::new(&self.actors[0], &self.params);
        for h in self.store.ancestors(tip) {
            let bytes = self.store.get(&h).bytes.clone();
            let r = node.add_bytes(&bytes).await;
            assert!(
                matches!(r, Some(Added::Ok(true))),
                "replay of honest chain failed at block {} ({:?})",
                self.store.get(&h).id,
                r
            );
        }
        node
    }

    pub fn keep_producer(&mut self, tip: Hash, node: LNode) {
        self.producers.retain(|(h, _)| h != &tip);
        self.producers.push((tip, node));
        while self.producers.len() > self.max_producers {
            self.producers.remove(0);
        }
    }

    pub async fn fresh_replica(&self, tip: &Hash, key: &Actor) -> LNode {
        let mut node = LNode::new(key, &self.params);
        for h in self.store.ancestors(tip) {
            let bytes = self.store.get(&h).bytes.clone();
            node.add_bytes(&bytes).await;
        }
        node
    }

    /// Produce (but do not store) an honest block on `parent`. Returns the block and the
    /// producer node (still sitting on `parent`).
    pub async fn produce(
        &mut self,
        rng: &mut Rng,
        parent: &Hash,
        spec: &BlockSpec,
    ) -> Result<(Block, LNode), String> {
        let node = self.producer_at(parent).await;
        let p = self.store.get(parent);
        let ts = p.ts + spec.gap.max(1);
        let gt = if spec.with_gt {
            let miner = self.actors[spec.gt_miner % self.actors.len()].clone();
            let ticket = mine_gt(rng, *parent, p.block.difficulty, &miner.pk);
            self.mined += 1;
            // the golden-ticket transaction is signed by the block creator's wallet
            Some(gt_tx(&ticket, &self.actors[0]))
        } else {
            None
        };
        match crate::panics::catch_async(node.create_block(*parent, ts, spec.txs.clone(), gt)).await {
            Ok(Ok(b)) => Ok((b, node)),
            Ok(Err(e)) => {
                self.keep_producer(*parent, node);
                Err(e)
            }
            Err(p) => Err(format!("Block::create panicked: {} [{}]", p.message, p.signature())),
        }
    }

    /// produce, add to the producer (must be accepted on the longest chain or as side block)
    /// and store
    pub async fn extend(
        &mut self,
        rng: &mut Rng,
        parent: &Hash,
        spec: &BlockSpec,
    ) -> Result<Hash, String> {
        let (block, mut node) = self.produce(rng, parent, spec).await?;
        let h = self.store.put(&block, true, "honest");
        let bytes = self.store.get(&h).bytes.clone();
        let r = match crate::panics::catch_async(node.add_bytes(&bytes)).await {
            Ok(r) => r,
            Err(p) => {
                // the producer node is in an unknown state: drop it
                self.store.map.remove(&h);
                self.store.order.retain(|x| x != &h);
                return Err(format!("producer panicked on own block: {} [{}]", p.message, p.signature()));
            }
        };
        match r {
            Some(Added::Ok(true)) => {
                self.keep_producer(h, node);
                Ok(h)
            }
            other => {
                // the honest producer refused its own block: keep the node on parent
                self.keep_producer(*parent, node);
                self.store.map.remove(&h);
                self.store.order.retain(|x| x != &h);
                Err(format!("producer rejected own block: {:?}", other))
            }
        }
    }

    /// a simple payment: `from` spends one of its safe outputs, pays `amount` to `to`, `fee`
    /// is left as fee, rest returns as change. None when `from` has no suitable output.
    pub fn payment(
        &mut self,
        rng: &mut Rng,
        at: &Hash,
        from: usize,
        to: usize,
        amount: u64,
        fee: u64,
        exclude: &mut Vec<[u8; 59]>,
    ) -> Option<Transaction> {
        let gp = self.params.gp;
        if from == 0 && self.params.stake > 0 {
            // the creator's wallet picks its own outputs for the staking transaction
            return None;
        }
        let ledger = self.store.ledger(at);
        let payer = self.actors[from].clone();
        let mut outs: Vec<OutRef> = ledger
            .safe_owned_by(&payer.pk, gp)
            .into_iter()
            .filter(|o| o.amount >= amount.saturating_add(fee) && !exclude.contains(&o.key()))
            .collect();
        if outs.is_empty() {
            return None;
        }
        let o = outs.swap_remove(rng.below(outs.len() as u64) as usize);
        exclude.push(o.key());
        let change = o.amount - amount - fee;
        let mut outputs = vec![(self.actors[to].pk, amount)];
        if change > 0 {
            outputs.push((payer.pk, change));
        }
        let ts = self.store.get(at).ts + 1 + rng.below(1000);
        Some(build_tx(&payer, &[o], &outputs, ts, &[]))
    }

    /// like `payment`, but the whole output (minus the fee) goes to the payee: the payer appears on
    /// the input side of the transaction only
    pub fn payment_all(&mut self, rng: &mut Rng, at: &Hash, from: usize, to: usize, fee: u64, exclude: &mut Vec<[u8; 59]>) -> Option<Transaction> {
        let gp = self.params.gp;
        if from == 0 && self.params.stake > 0 {
            return None;
        }
        let ledger = self.store.ledger(at);
        let payer = self.actors[from].clone();
        let mut outs: Vec<OutRef> = ledger.safe_owned_by(&payer.pk, gp).into_iter().filter(|o| o.amount > fee && !exclude.contains(&o.key())).collect();
        if outs.is_empty() {
            return None;
        }
        let o = outs.swap_remove(rng.below(outs.len() as u64) as usize);
        exclude.push(o.key());
        let outputs = vec![(self.actors[to].pk, o.amount - fee)];
        let ts = self.store.get(at).ts + 1 + rng.below(1000);
        Some(build_tx(&payer, &[o], &outputs, ts, &[]))
    }

    /// like `payment`, but the fee is a fraction of the spent output (burns value quickly)
    pub fn payment_fraction(
        &mut self,
        rng: &mut Rng,
        at: &Hash,
        from: usize,
        to: usize,
        fee_permille: u64,
        exclude: &mut Vec<[u8; 59]>,
    ) -> Option<Transaction> {
        let gp = self.params.gp;
        if from == 0 && self.params.stake > 0 {
            return None;
        }
        let ledger = self.store.ledger(at);
        let payer = self.actors[from].clone();
        let mut outs: Vec<OutRef> = ledger
            .safe_owned_by(&payer.pk, gp)
            .into_iter()
            .filter(|o| o.amount >= 100 && !exclude.contains(&o.key()))
            .collect();
        if outs.is_empty() {
            return None;
        }
        let o = outs.swap_remove(rng.below(outs.len() as u64) as usize);
        exclude.push(o.key());
        let fee = (o.amount as u128 * fee_permille as u128 / 1000) as u64;
        let rest = o.amount - fee;
        let pay = rest / 2;
        let mut outputs = vec![(self.actors[to].pk, pay)];
        if rest - pay > 0 {
            outputs.push((payer.pk, rest - pay));
        }
        let ts = self.store.get(at).ts + 1 + rng.below(1000);
        Some(build_tx(&payer, &[o], &outputs, ts, &[]))
    }

    /// grow an honest linear chain by `n` blocks from `tip` with a few fee-paying payments per
    /// block and a golden ticket in every second block (keeps difficulty flat)
    pub async fn grow(
        &mut self,
        rng: &mut Rng,
        tip: &Hash,
        n: usize,
        txs_per_block: usize,
        fee: u64,
    ) -> Hash {
        let mut cur = *tip;
        for _ in 0..n {
            let id = self.store.get(&cur).id + 1;
            let mut exclude = vec![];
            let mut txs = vec![];
            for _ in 0..txs_per_block {
                let from = rng.below(self.actors.len() as u64) as usize;
                let to = rng.below(self.actors.len() as u64) as usize;
                let amount = 1 + rng.below(1000);
                if let Some(tx) = self.payment(rng, &cur, from, to, amount, fee, &mut exclude) {
                    txs.push(tx);
                }
            }
            let spec = BlockSpec {
                gap: 2 * self.params.heartbeat,
                txs,
                with_gt: id % 2 == 0,
                gt_miner: 0,
            };
            cur = self
                .extend(rng, &cur, &spec)
                .await
                .expect("honest growth must succeed");
        }
        cur
    }
}
