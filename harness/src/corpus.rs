//! Seed corpus of structurally valid values of every wire / disk format, produced with the
//! real producer code. Used by the byte-level properties (C09, C10, C18) and by C11.
use saito_core::core::consensus::block::Block;
use saito_core::core::consensus::peers::peer_service::PeerService;
use saito_core::core::consensus::slip::Slip;
use saito_core::core::consensus::transaction::{Transaction, TransactionType};
use saito_core::core::msg::api_message::ApiMessage;
use saito_core::core::msg::block_request::BlockchainRequest;
use saito_core::core::msg::ghost_chain_sync::GhostChainSync;
use saito_core::core::msg::handshake::{HandshakeChallenge, HandshakeResponse};
use saito_core::core::msg::message::Message;
use saito_core::core::process::version::Version;
use saito_core::core::util::crypto::sign;
use saito_core::core::util::serialize::Serialize;

use crate::chain::{BlockSpec, Builder};
use crate::rng::Rng;
use crate::world::*;

pub struct Corpus {
    pub builder: Builder,
    pub tip: Hash,
    pub txs: Vec<Transaction>,
    pub blocks: Vec<Block>,
}

pub const ISSUE: u64 = 1_000_000_000;

/// issuance used by most workloads: every actor gets several outputs of different sizes
pub fn default_issuance(n_actors: usize) -> Vec<Vec<u64>> {
    (0..n_actors)
        .map(|i| {
            vec![
                ISSUE,
                ISSUE / 2 + i as u64,
                ISSUE / 4 + 7 * i as u64,
                50_000 + i as u64,
                30_000 + i as u64,
                26_000 + i as u64,
            ]
        })
        .collect()
}

/// a transaction with a routing path sender -> r1 -> ... -> creator
pub fn routed_payment(
    b: &mut Builder,
    rng: &mut Rng,
    at: &Hash,
    from: usize,
    to: usize,
    amount: u64,
    fee: u64,
    hops: usize,
    exclude: &mut Vec<[u8; 59]>,
) -> Option<Transaction> {
    let mut tx = b.payment(rng, at, from, to, amount, fee, exclude)?;
    let sender = b.actors[from].clone();
    let mut path: Vec<Actor> = vec![];
    // intermediate routers (never the sender itself, never the creator), then the creator
    let routers: Vec<usize> = (1..b.actors.len()).filter(|i| *i != from).collect();
    for h in 0..hops.saturating_sub(1) {
        if routers.is_empty() {
            break;
        }
        path.push(b.actors[routers[h % routers.len()]].clone());
    }
    if hops > 0 && from != 0 {
        path.push(b.actors[0].clone());
    }
    // remove consecutive duplicates
    path.dedup_by(|a, c| a.pk == c.pk);
    let refs: Vec<&Actor> = path.iter().collect();
    add_path(&mut tx, &sender, &refs);
    Some(tx)
}

impl Corpus {
    /// builds an honest chain of `len` blocks (gp from params) with payments, routed payments,
    /// data payloads and golden tickets
    pub async fn build(rng: &mut Rng, params: &Params, len: usize) -> Corpus {
        let n = 5;
        let mut b = Builder::new(params, n, &default_issuance(n)).await;
        let mut tip = b.genesis;
        for i in 0..len {
            let id = b.store.get(&tip).id + 1;
            let mut exclude = vec![];
            let mut txs = vec![];
            let k = 1 + (i % 4);
            for j in 0..k {
                let from = (i + j) % n;
                let to = (i + 2 * j + 1) % n;
                let hops = (i + j) % 4;
                let fee = 100 * (1 + ((i * 7 + j) % 50) as u64);
                if let Some(mut tx) = routed_payment(
                    &mut b,
                    rng,
                    &tip,
                    from,
                    to,
                    1000 + (i as u64) * 13,
                    fee,
                    hops,
                    &mut exclude,
                ) {
                    if (i + j) % 3 == 0 {
                        // payload; must be re-signed because data is covered by the signature
                        let inputs: Vec<OutRef> = vec![];
                        let _ = inputs;
                        tx.data = rng.bytes(1 + (i * 31 + j * 5) % 200);
                        tx.path.clear();
                        tx.sign(&b.actors[from].sk);
                    }
                    txs.push(tx);
                }
            }
            if txs.is_empty() {
                txs.push(build_tx(&b.actors[1], &[], &[], b.store.get(&tip).ts + 5, b"noop"));
            }
            let spec = BlockSpec {
                gap: 2 * params.heartbeat + (i as u64 % 3) * 500,
                txs,
                with_gt: id % 2 == 0,
                gt_miner: i % n,
            };
            tip = b.extend(rng, &tip, &spec).await.expect("corpus chain");
        }
        let mut txs = vec![];
        let mut blocks = vec![];
        for h in b.store.order.clone() {
            let s = b.store.get(&h);
            blocks.push(s.block.clone());
            for tx in &s.block.transactions {
                txs.push(tx.clone());
            }
        }
        Corpus {
            builder: b,
            tip,
            txs,
            blocks,
        }
    }

    pub fn tx_of_type(&self, t: TransactionType) -> Option<&Transaction> {
        self.txs.iter().find(|x| x.transaction_type == t)
    }
}

pub fn blockchain_request(id: u64, hash: &Hash, fork: &Hash) -> BlockchainRequest {
    let bytes: Vec<u8> = [id.to_be_bytes().as_slice(), hash, fork].concat();
    BlockchainRequest::deserialize(&bytes).expect("72 bytes")
}

pub fn ghost_sync(rng: &mut Rng, n: usize) -> GhostChainSync {
    GhostChainSync {
        start: rng.hash32(),
        prehashes: (0..n).map(|_| rng.hash32()).collect(),
        previous_block_hashes: (0..n).map(|_| rng.hash32()).collect(),
        block_ids: (0..n).map(|i| 100 + i as u64).collect(),
        block_ts: (0..n).map(|i| T0 + i as u64 * 1000).collect(),
        txs: (0..n).map(|i| i % 2 == 0).collect(),
        gts: (0..n).map(|i| i % 3 == 0).collect(),
    }
}

pub fn services(n: usize) -> Vec<PeerService> {
    (0..n)
        .map(|i| PeerService {
            service: format!("svc{}", i),
            domain: format!("dom{}.example", i),
            name: format!("name{}", i),
        })
        .collect()
}

pub fn handshake_response(
    signer: &Actor,
    challenge: &Hash,
    url: &str,
    lite: bool,
    nsvc: usize,
) -> HandshakeResponse {
    HandshakeResponse {
        public_key: signer.pk,
        signature: sign(challenge, &signer.sk),
        is_lite: lite,
        block_fetch_url: url.to_string(),
        challenge: *challenge,
        services: services(nsvc),
        wallet_version: Version::new(1, 2, 3),
        core_version: Version::new(0, 2, 11),
    }
}

/// one well-formed message of every tag (several shapes for the variable-length ones)
pub fn messages(rng: &mut Rng, c: &Corpus) -> Vec<(String, Vec<u8>)> {
    let a = &c.builder.actors;
    let mut v: Vec<(String, Message)> = vec![];
    v.push((
        "challenge".into(),
        Message::HandshakeChallenge(HandshakeChallenge {
            challenge: rng.hash32(),
        }),
    ));
    let ch = rng.hash32();
    v.push((
        "response-min".into(),
        Message::HandshakeResponse(handshake_response(&a[1], &ch, "", false, 0)),
    ));
    v.push((
        "response-url-svc".into(),
        Message::HandshakeResponse(handshake_response(
            &a[2],
            &ch,
            "http://peer.example:12101",
            true,
            2,
        )),
    ));
    v.push(("block".into(), Message::Block(c.blocks[c.blocks.len() - 1].clone())));
    v.push(("block-genesis".into(), Message::Block(c.blocks[0].clone())));
    for (i, tx) in c.txs.iter().enumerate().take(40) {
        if i % 5 == 0 || !tx.path.is_empty() || tx.transaction_type != TransactionType::Normal {
            v.push((format!("tx-{:?}", tx.transaction_type), Message::Transaction(tx.clone())));
        }
    }
    v.push((
        "chainreq".into(),
        Message::BlockchainRequest(blockchain_request(7, &rng.hash32(), &rng.hash32())),
    ));
    v.push(("headerhash".into(), Message::BlockHeaderHash(rng.hash32(), 9)));
    v.push(("ping".into(), Message::Ping()));
    v.push(("services".into(), Message::Services(services(3))));
    v.push(("ghost-0".into(), Message::GhostChain(ghost_sync(rng, 0))));
    v.push(("ghost-3".into(), Message::GhostChain(ghost_sync(rng, 3))));
    v.push((
        "ghostreq".into(),
        Message::GhostChainRequest(5, rng.hash32(), rng.hash32()),
    ));
    v.push((
        "app".into(),
        Message::ApplicationMessage(ApiMessage {
            msg_index: 77,
            data: rng.bytes(40),
        }),
    ));
    v.push((
        "result".into(),
        Message::Result(ApiMessage {
            msg_index: 78,
            data: vec![],
        }),
    ));
    v.push((
        "error".into(),
        Message::Error(ApiMessage {
            msg_index: 79,
            data: rng.bytes(3),
        }),
    ));
    v.push((
        "keylist".into(),
        Message::KeyListUpdate(vec![a[0].pk, a[1].pk, a[2].pk]),
    ));
    v.into_iter().map(|(n, m)| (n, m.serialize())).collect()
}

pub fn sample_slip(rng: &mut Rng, owner: &PK) -> Slip {
    let mut s = Slip::default();
    s.public_key = *owner;
    s.amount = rng.next();
    s.block_id = rng.next();
    s.tx_ordinal = rng.next();
    s.slip_index = rng.below(256) as u8;
    s.slip_type = slip_type_from(rng.below(10) as u8);
    s
}
