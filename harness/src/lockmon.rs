//! Lock-order monitor over the event log of the `--cfg saito_verif` RwLock wrapper (hook H2).
//! Per task it keeps the stack of held locks; every attempt to take a lock of rank r while a
//! lock of a later rank r' > r is held is an inversion edge (held site -> acquiring site). An
//! edge is excused only if one common third lock is held exclusively at every observed
//! acquisition of both orders of that rank pair. Only acquisition sites inside the repository
//! count, as held and as acquiring: the harness takes these locks itself to read state.
use std::collections::{BTreeMap, BTreeSet, HashMap};

use saito_core::core::util::verif::{LockEvent, EV_ACQUIRED, EV_RELEASED, EV_TRY};

pub fn rank_name(r: u8) -> &'static str {
    match r {
        1 => "network-controller",
        2 => "sockets",
        3 => "configuration",
        4 => "blockchain",
        5 => "mempool",
        6 => "peers",
        7 => "wallet",
        _ => "other",
    }
}

#[derive(Clone, Debug)]
struct Held {
    rank: u8,
    lock_id: u64,
    write: bool,
    file: &'static str,
    line: u32,
}

#[derive(Clone, Debug, Default)]
pub struct Edge {
    pub count: u64,
    /// ranks held exclusively (other than the two locks of the edge) at EVERY occurrence
    pub common_guards: Option<BTreeSet<u8>>,
    pub example: String,
}

#[derive(Default)]
pub struct Monitor {
    stacks: HashMap<u64, Vec<Held>>,
    /// (held rank, held site, acquiring rank, acquiring site) -> edge; held rank > acquiring rank
    pub inversions: BTreeMap<(u8, String, u8, String), Edge>,
    /// (lower rank, higher rank) -> guards common to every in-order nested acquisition
    pub forward_guards: BTreeMap<(u8, u8), Option<BTreeSet<u8>>>,
    pub forward_nested: u64,
    pub events: u64,
    pub acquisitions: u64,
    pub repo_acquisitions: u64,
    pub sites: BTreeSet<(String, u32)>,
    pub same_lock_reacquired: BTreeMap<String, u64>,
    pub max_depth: usize,
    pub tasks: BTreeSet<u64>,
    pub unmatched_releases: u64,
    fn_cache: HashMap<(String, u32), String>,
}

fn in_repo(file: &str) -> bool {
    file.starts_with("/repo/")
}

impl Monitor {
    /// "<crate-relative file>:<enclosing fn>" of a call site (line numbers would make signatures brittle)
    pub fn site(&mut self, file: &str, line: u32) -> String {
        if let Some(s) = self.fn_cache.get(&(file.to_string(), line)) {
            return s.clone();
        }
        let rel = file.trim_start_matches("/repo/").to_string();
        let mut name = String::from("?");
        if let Ok(text) = std::fs::read_to_string(file) {
            let lines: Vec<&str> = text.lines().collect();
            let mut i = (line as usize).min(lines.len());
            while i > 0 {
                i -= 1;
                let l = lines[i].trim_start();
                if let Some(pos) = l.find("fn ") {
                    let before = &l[..pos];
                    if before.is_empty() || before.ends_with(' ') || before.ends_with('(') {
                        let rest = &l[pos + 3..];
                        let ident: String = rest.chars().take_while(|c| c.is_alphanumeric() || *c == '_').collect();
                        if !ident.is_empty() && !l.starts_with("//") {
                            name = ident;
                            break;
                        }
                    }
                }
            }
        }
        let s = format!("{}:{}", rel, name);
        self.fn_cache.insert((file.to_string(), line), s.clone());
        s
    }

    pub fn feed(&mut self, events: &[LockEvent]) {
        for e in events {
            self.events += 1;
            self.tasks.insert(e.task);
            match e.kind {
                k if k == EV_TRY => {
                    if !in_repo(e.file) {
                        continue;
                    }
                    let held: Vec<Held> = self.stacks.get(&e.task).cloned().unwrap_or_default();
                    for (hi, h) in held.iter().enumerate() {
                        if !in_repo(h.file) {
                            continue;
                        }
                        // locks held exclusively besides the two of this pair
                        let guards: BTreeSet<u8> = held.iter().enumerate().filter(|(j, g)| *j != hi && g.write && g.lock_id != e.lock_id && in_repo(g.file)).map(|(_, g)| g.rank).collect();
                        if h.lock_id == e.lock_id {
                            let site = self.site(e.file, e.line);
                            *self.same_lock_reacquired.entry(format!("{} {}->{} at {}", rank_name(e.rank), if h.write { "write" } else { "read" }, if e.write { "write" } else { "read" }, site)).or_insert(0) += 1;
                        } else if h.rank > e.rank {
                            let hs = self.site(h.file, h.line);
                            let asite = self.site(e.file, e.line);
                            let edge = self.inversions.entry((h.rank, hs, e.rank, asite)).or_default();
                            edge.count += 1;
                            edge.common_guards = Some(match edge.common_guards.take() {
                                None => guards.clone(),
                                Some(c) => c.intersection(&guards).cloned().collect(),
                            });
                            if edge.example.is_empty() {
                                edge.example = format!("task {} holds {} ({}, taken at {}:{}) and asks for {} ({}) at {}:{}", e.task, rank_name(h.rank), if h.write { "write" } else { "read" }, h.file.trim_start_matches("/repo/"), h.line, rank_name(e.rank), if e.write { "write" } else { "read" }, e.file.trim_start_matches("/repo/"), e.line);
                            }
                        } else if h.rank < e.rank {
                            self.forward_nested += 1;
                            let slot = self.forward_guards.entry((h.rank, e.rank)).or_insert(None);
                            *slot = Some(match slot.take() {
                                None => guards.clone(),
                                Some(c) => c.intersection(&guards).cloned().collect(),
                            });
                        }
                    }
                }
                k if k == EV_ACQUIRED => {
                    self.acquisitions += 1;
                    if in_repo(e.file) {
                        self.repo_acquisitions += 1;
                        self.sites.insert((e.file.trim_start_matches("/repo/").to_string(), e.line));
                    }
                    let st = self.stacks.entry(e.task).or_default();
                    st.push(Held { rank: e.rank, lock_id: e.lock_id, write: e.write, file: e.file, line: e.line });
                    self.max_depth = self.max_depth.max(st.len());
                }
                k if k == EV_RELEASED => {
                    let st = self.stacks.entry(e.task).or_default();
                    match st.iter().rposition(|h| h.lock_id == e.lock_id && h.write == e.write) {
                        Some(i) => {
                            st.remove(i);
                        }
                        None => self.unmatched_releases += 1,
                    }
                }
                _ => {}
            }
        }
    }

    /// inversion edges that no common outer lock serialises: (signature, description)
    pub fn unexcused(&self) -> Vec<(String, String)> {
        let mut out = vec![];
        for ((hr, hs, ar, asite), edge) in self.inversions.iter() {
            let mut common: BTreeSet<u8> = edge.common_guards.clone().unwrap_or_default();
            // the same outer lock must also cover every in-order nesting of the two ranks
            if let Some(Some(f)) = self.forward_guards.get(&(*ar, *hr)) {
                common = common.intersection(f).cloned().collect();
            }
            // and every other inversion edge of the same rank pair
            for ((hr2, _, ar2, _), e2) in self.inversions.iter() {
                if hr2 == hr && ar2 == ar {
                    common = common.intersection(&e2.common_guards.clone().unwrap_or_default()).cloned().collect();
                }
            }
            if common.is_empty() {
                out.push((
                    format!("C20|clause=lock-order-inversion|held={}@{}|acquiring={}@{}", rank_name(*hr), hs, rank_name(*ar), asite),
                    format!("{} (seen {} times; no lock is held exclusively at every nesting of {} and {})", edge.example, edge.count, rank_name(*ar), rank_name(*hr)),
                ));
            }
        }
        out
    }
}

/// acquisition sites in the sources of the natively threaded crates (coverage denominator)
pub fn source_sites() -> Vec<(String, u32)> {
    let mut out = vec![];
    for root in ["/repo/saito-core/src", "/repo/saito-rust/src", "/repo/saito-spammer/src"] {
        let mut stack = vec![std::path::PathBuf::from(root)];
        while let Some(dir) = stack.pop() {
            let rd = match std::fs::read_dir(&dir) {
                Ok(r) => r,
                Err(_) => continue,
            };
            for ent in rd.flatten() {
                let p = ent.path();
                if p.is_dir() {
                    stack.push(p);
                    continue;
                }
                if p.extension().and_then(|e| e.to_str()) != Some("rs") || p.ends_with("verif.rs") {
                    continue;
                }
                let text = match std::fs::read_to_string(&p) {
                    Ok(t) => t,
                    Err(_) => continue,
                };
                let lines: Vec<&str> = text.lines().collect();
                let mut in_tests = false;
                for (i, l) in lines.iter().enumerate() {
                    let t = l.trim();
                    if t.starts_with("mod tests") || t.starts_with("mod test ") || t.starts_with("pub mod test") {
                        in_tests = true;
                    }
                    if in_tests || t.starts_with("//") {
                        continue;
                    }
                    if !(t.contains(".read()") || t.contains(".write()")) {
                        continue;
                    }
                    // the receiver is one of the shared locks and the call is awaited (same or next line)
                    let window = format!("{} {} {}", if i > 0 { lines[i - 1] } else { "" }, l, lines.get(i + 1).unwrap_or(&""));
                    let awaited = l.contains(".await") || lines.get(i + 1).map(|n| n.trim_start().starts_with(".await")).unwrap_or(false);
                    let lockish = ["lock", "configs", "config", "wallet", "blockchain", "mempool", "peers"].iter().any(|k| window.contains(k));
                    if awaited && lockish {
                        out.push((p.to_string_lossy().trim_start_matches("/repo/").to_string(), i as u32 + 1));
                    }
                }
            }
        }
    }
    out.sort();
    out
}
