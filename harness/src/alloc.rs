//! Counting global allocator: live bytes and peak live bytes while armed (C10 allocation bound).
use std::alloc::{GlobalAlloc, Layout, System};
use std::sync::atomic::{AtomicBool, AtomicUsize, Ordering};

pub struct Counting;

static LIVE: AtomicUsize = AtomicUsize::new(0);
static PEAK: AtomicUsize = AtomicUsize::new(0);
static ARMED: AtomicBool = AtomicBool::new(false);

unsafe impl GlobalAlloc for Counting {
    unsafe fn alloc(&self, layout: Layout) -> *mut u8 {
        let p = System.alloc(layout);
        if !p.is_null() {
            let live = LIVE.fetch_add(layout.size(), Ordering::Relaxed) + layout.size();
            if ARMED.load(Ordering::Relaxed) {
                PEAK.fetch_max(live, Ordering::Relaxed);
            }
        }
        p
    }
    unsafe fn dealloc(&self, ptr: *mut u8, layout: Layout) {
        System.dealloc(ptr, layout);
        LIVE.fetch_sub(layout.size(), Ordering::Relaxed);
    }
    unsafe fn realloc(&self, ptr: *mut u8, layout: Layout, new_size: usize) -> *mut u8 {
        let p = System.realloc(ptr, layout, new_size);
        if !p.is_null() {
            if new_size >= layout.size() {
                let d = new_size - layout.size();
                let live = LIVE.fetch_add(d, Ordering::Relaxed) + d;
                if ARMED.load(Ordering::Relaxed) {
                    PEAK.fetch_max(live, Ordering::Relaxed);
                }
            } else {
                LIVE.fetch_sub(layout.size() - new_size, Ordering::Relaxed);
            }
        }
        p
    }
}

/// start measuring: returns the baseline (live bytes now)
pub fn arm() -> usize {
    let live = LIVE.load(Ordering::Relaxed);
    PEAK.store(live, Ordering::Relaxed);
    ARMED.store(true, Ordering::Relaxed);
    live
}

/// stop measuring (also called first thing by the panic hook so that message formatting and
/// backtrace capture are not charged to the decoder)
pub fn disarm() {
    ARMED.store(false, Ordering::Relaxed);
}

/// peak live bytes above `baseline` since `arm`
pub fn peak_above(baseline: usize) -> usize {
    PEAK.load(Ordering::Relaxed).saturating_sub(baseline)
}

pub fn live() -> usize {
    LIVE.load(Ordering::Relaxed)
}
