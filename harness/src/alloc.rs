//! Counting global allocator: live bytes and peak live bytes while armed (C10 allocation bound).
use std::alloc::{GlobalAlloc, Layout, System};
use std::sync::atomic::{AtomicBool, AtomicUsize, Ordering};

pub struct Counting;

static LIVE: AtomicUsize = AtomicUsize::new(0);
static PEAK: AtomicUsize = AtomicUsize::new(0);
static ARMED: AtomicBool = AtomicBool::new(false);
/// a single request above this many bytes while armed ends the process through `oversize`
/// (0 = off). An allocation the system cannot serve aborts the process and escapes
/// catch_unwind; this way the request is reported, with the input that caused it, before that.
static HARD_CAP: AtomicUsize = AtomicUsize::new(0);
static CUR_PTR: std::sync::atomic::AtomicPtr<u8> = std::sync::atomic::AtomicPtr::new(std::ptr::null_mut());
static CUR_LEN: AtomicUsize = AtomicUsize::new(0);
static CUR_TAG: AtomicUsize = AtomicUsize::new(0);
static WITNESS_PATH: std::sync::OnceLock<std::ffi::CString> = std::sync::OnceLock::new();

pub const OVERSIZE_EXIT_CODE: i32 = 97;

extern "C" {
    fn open(path: *const std::os::raw::c_char, flags: i32, mode: u32) -> i32;
    fn write(fd: i32, buf: *const u8, n: usize) -> isize;
    fn close(fd: i32) -> i32;
    fn _exit(code: i32) -> !;
}

/// no allocation, no unwinding: raw file I/O and _exit
unsafe fn oversize(size: usize) -> ! {
    ARMED.store(false, Ordering::Relaxed);
    let mut num = [0u8; 24];
    let itoa = |mut v: usize, buf: &mut [u8; 24]| -> usize {
        let mut i = buf.len();
        if v == 0 {
            i -= 1;
            buf[i] = b'0';
        }
        while v > 0 {
            i -= 1;
            buf[i] = b'0' + (v % 10) as u8;
            v /= 10;
        }
        i
    };
    if let Some(path) = WITNESS_PATH.get() {
        // O_WRONLY | O_CREAT | O_TRUNC
        let fd = open(path.as_ptr(), 0o1 | 0o100 | 0o1000, 0o644);
        if fd >= 0 {
            let p = CUR_PTR.load(Ordering::Relaxed);
            let n = CUR_LEN.load(Ordering::Relaxed);
            if !p.is_null() {
                let mut off = 0usize;
                while off < n {
                    let w = write(fd, p.add(off), n - off);
                    if w <= 0 {
                        break;
                    }
                    off += w as usize;
                }
            }
            close(fd);
        }
    }
    let a = b"ALLOC-ABORT tag=";
    write(2, a.as_ptr(), a.len());
    let i = itoa(CUR_TAG.load(Ordering::Relaxed), &mut num);
    write(2, num.as_ptr().add(i), num.len() - i);
    let b = b" size=";
    write(2, b.as_ptr(), b.len());
    let i = itoa(size, &mut num);
    write(2, num.as_ptr().add(i), num.len() - i);
    let c = b" witness=";
    write(2, c.as_ptr(), c.len());
    if let Some(path) = WITNESS_PATH.get() {
        let bytes = path.as_bytes();
        write(2, bytes.as_ptr(), bytes.len());
    }
    write(2, b"\n".as_ptr(), 1);
    _exit(OVERSIZE_EXIT_CODE)
}

/// report-and-exit for single requests above `cap` bytes while armed; the witness (the input set
/// with `set_current`) goes to `witness_path`
pub fn set_hard_cap(cap: usize, witness_path: &str) {
    let _ = WITNESS_PATH.set(std::ffi::CString::new(witness_path).expect("path"));
    HARD_CAP.store(cap, Ordering::Relaxed);
}

/// the input being processed (must stay alive and unmoved until the next call or `disarm`)
pub fn set_current(tag: usize, ptr: *const u8, len: usize) {
    CUR_TAG.store(tag, Ordering::Relaxed);
    CUR_LEN.store(len, Ordering::Relaxed);
    CUR_PTR.store(ptr as *mut u8, Ordering::Relaxed);
}

unsafe impl GlobalAlloc for Counting {
    unsafe fn alloc(&self, layout: Layout) -> *mut u8 {
        let cap = HARD_CAP.load(Ordering::Relaxed);
        if cap != 0 && layout.size() > cap && ARMED.load(Ordering::Relaxed) {
            oversize(layout.size());
        }
        let p = System.alloc(layout);
        if !p.is_null() {
            let live = LIVE.fetch_add(layout.size(), Ordering::Relaxed) + layout.size();
            if ARMED.load(Ordering::Relaxed) {
                PEAK.fetch_max(live, Ordering::Relaxed);
            }
        }
        p
    }
    unsafe fn dealloc(&self, ptr: *mut u8, layout: Layout) {
        System.dealloc(ptr, layout);
        LIVE.fetch_sub(layout.size(), Ordering::Relaxed);
    }
    unsafe fn realloc(&self, ptr: *mut u8, layout: Layout, new_size: usize) -> *mut u8 {
        let cap = HARD_CAP.load(Ordering::Relaxed);
        if cap != 0 && new_size > cap && ARMED.load(Ordering::Relaxed) {
            oversize(new_size);
        }
        let p = System.realloc(ptr, layout, new_size);
        if !p.is_null() {
            if new_size >= layout.size() {
                let d = new_size - layout.size();
                let live = LIVE.fetch_add(d, Ordering::Relaxed) + d;
                if ARMED.load(Ordering::Relaxed) {
                    PEAK.fetch_max(live, Ordering::Relaxed);
                }
            } else {
                LIVE.fetch_sub(layout.size() - new_size, Ordering::Relaxed);
            }
        }
        p
    }
}

/// start measuring: returns the baseline (live bytes now)
pub fn arm() -> usize {
    let live = LIVE.load(Ordering::Relaxed);
    PEAK.store(live, Ordering::Relaxed);
    ARMED.store(true, Ordering::Relaxed);
    live
}

/// stop measuring (also called first thing by the panic hook so that message formatting and
/// backtrace capture are not charged to the decoder)
pub fn disarm() {
    ARMED.store(false, Ordering::Relaxed);
}

/// peak live bytes above `baseline` since `arm`
pub fn peak_above(baseline: usize) -> usize {
    PEAK.load(Ordering::Relaxed).saturating_sub(baseline)
}

pub fn live() -> usize {
    LIVE.load(Ordering::Relaxed)
}
