//! A `log` sink that formats every record of every level and throws the text away: arguments of
//! `trace!`/`debug!` calls in the repository (several of them unwrap) are evaluated exactly as on
//! a node started with RUST_LOG=trace, without the I/O cost.
use std::fmt::Write;
use std::sync::atomic::{AtomicU64, Ordering};

pub static RECORDS: AtomicU64 = AtomicU64::new(0);

struct Sink;

impl log::Log for Sink {
    fn enabled(&self, _: &log::Metadata) -> bool {
        true
    }
    fn log(&self, record: &log::Record) {
        let mut s = String::new();
        let _ = write!(s, "{}", record.args());
        RECORDS.fetch_add(1, Ordering::Relaxed);
    }
    fn flush(&self) {}
}

static SINK: Sink = Sink;

pub fn install() {
    if log::set_logger(&SINK).is_ok() {
        log::set_max_level(log::LevelFilter::Trace);
    }
}

pub fn records() -> u64 {
    RECORDS.load(Ordering::Relaxed)
}

struct Stderr;

impl log::Log for Stderr {
    fn enabled(&self, _: &log::Metadata) -> bool {
        true
    }
    fn log(&self, record: &log::Record) {
        eprintln!("[{}] {}: {}", record.level(), record.target(), record.args());
    }
    fn flush(&self) {}
}

static STDERR: Stderr = Stderr;

/// debugging aid for replays: print the repository's log records
pub fn install_stderr(level: log::LevelFilter) {
    if log::set_logger(&STDERR).is_ok() {
        log::set_max_level(level);
    }
}
