//! Stall watchdog: decides "this handler call does not return" on CPU time consumed by the
//! calling thread inside ONE call (robust against machine load, unlike wall time). A monitor
//! thread samples /proc/self/task/<main tid>/stat; when the same call is still running after
//! `LIMIT_CPU_S` seconds of CPU it writes a complete shard report containing the stall as a
//! violation (with the recorded input history as witness) and ends the process. A separate
//! generous wall-clock bound only yields an "inconclusive" report.
use std::sync::atomic::{AtomicBool, AtomicU64, Ordering};
use std::sync::Mutex;
use std::time::{Duration, Instant};

use serde_json::{json, Value};

use crate::report::Report;

pub const LIMIT_CPU_S: f64 = 20.0;
pub const LIMIT_WALL_S: f64 = 600.0;

static SEQ: AtomicU64 = AtomicU64::new(0);
static IN_CALL: AtomicBool = AtomicBool::new(false);
static CALLS: AtomicU64 = AtomicU64::new(0);

struct Cfg {
    out: Option<String>,
    property: String,
    tier: String,
    seed: u64,
    shard: u64,
    build: String,
}

struct State {
    label: String,
    meta: Value,
    inputs: Vec<Value>,
}

static CFG: Mutex<Option<Cfg>> = Mutex::new(None);
static STATE: Mutex<Option<State>> = Mutex::new(None);

fn cpu_seconds_of(tid: u32) -> Option<f64> {
    let text = std::fs::read_to_string(format!("/proc/self/task/{}/stat", tid)).ok()?;
    let rest = &text[text.rfind(')')? + 1..];
    let f: Vec<&str> = rest.split_whitespace().collect();
    // after "pid (comm)" the fields start at state (index 0); utime and stime are 11 and 12
    let ut: f64 = f.get(11)?.parse().ok()?;
    let st: f64 = f.get(12)?.parse().ok()?;
    Some((ut + st) / 100.0)
}

/// start the monitor thread (once, from main, on the thread that will run the workload)
pub fn configure(out: Option<String>, property: &str, tier: &str, seed: u64, shard: u64, build: &str) {
    *CFG.lock().unwrap() = Some(Cfg { out, property: property.to_string(), tier: tier.to_string(), seed, shard, build: build.to_string() });
    let tid = std::process::id();
    std::thread::spawn(move || {
        let mut seen_seq = u64::MAX;
        let mut cpu_at_first_sight = 0.0;
        let mut wall_at_first_sight = Instant::now();
        loop {
            std::thread::sleep(Duration::from_millis(250));
            if !IN_CALL.load(Ordering::SeqCst) {
                seen_seq = u64::MAX;
                continue;
            }
            let seq = SEQ.load(Ordering::SeqCst);
            let cpu = match cpu_seconds_of(tid) {
                Some(c) => c,
                None => continue,
            };
            if seq != seen_seq {
                seen_seq = seq;
                cpu_at_first_sight = cpu;
                wall_at_first_sight = Instant::now();
                continue;
            }
            let used = cpu - cpu_at_first_sight;
            let wall = wall_at_first_sight.elapsed().as_secs_f64();
            if used >= LIMIT_CPU_S || wall >= LIMIT_WALL_S {
                finish(used, wall, used >= LIMIT_CPU_S);
            }
        }
    });
}

fn finish(cpu: f64, wall: f64, verdict: bool) -> ! {
    let cfg = CFG.lock().unwrap();
    let cfg = cfg.as_ref().unwrap();
    let st = STATE.lock().unwrap();
    let (label, witness) = match st.as_ref() {
        Some(s) => {
            let mut w = s.meta.clone();
            w["inputs"] = Value::Array(s.inputs.clone());
            (s.label.clone(), w)
        }
        None => ("?".to_string(), json!({})),
    };
    let mut rep = Report::new(&cfg.property, &cfg.tier, cfg.seed, cfg.shard);
    rep.evals(1);
    rep.add("handler_calls", CALLS.load(Ordering::SeqCst));
    if verdict {
        rep.violation(
            &format!("{}|clause=handler-does-not-return|handler={}", cfg.property, label),
            &format!("one call of the {} handler consumed {:.1} s of CPU time without returning (limit {} s; a call normally takes milliseconds); the process was ended by the watchdog", label, cpu, LIMIT_CPU_S),
            witness,
        );
    } else {
        rep.inconclusive(&format!("handler {} still running after {:.0} s of wall time with only {:.1} s of CPU (machine load?)", label, wall, cpu));
    }
    let mut v = rep.to_json();
    v["build"] = json!(cfg.build);
    v["wall_s"] = json!(wall);
    let text = serde_json::to_string(&v).unwrap();
    match &cfg.out {
        Some(p) => {
            let _ = std::fs::write(p, text);
        }
        None => println!("{}", text),
    }
    std::process::exit(0);
}

/// a new run starts: forget the recorded inputs
pub fn reset(meta: Value) {
    *STATE.lock().unwrap() = Some(State { label: String::new(), meta, inputs: vec![] });
}

/// a handler call begins (the input is recorded before the call, as the guidance asks)
pub fn begin(label: &str, input: Value) {
    {
        let mut st = STATE.lock().unwrap();
        if let Some(s) = st.as_mut() {
            s.label = label.to_string();
            s.inputs.push(input);
        }
    }
    CALLS.fetch_add(1, Ordering::SeqCst);
    SEQ.fetch_add(1, Ordering::SeqCst);
    IN_CALL.store(true, Ordering::SeqCst);
}

pub fn end() {
    IN_CALL.store(false, Ordering::SeqCst);
}
