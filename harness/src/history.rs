//! Random honest histories: a producer (the Builder, real `Block::create`) and an independent
//! replica that receives every block as bytes. Used by C02, C05, C07, C08, C13, C19.
use saito_core::core::consensus::transaction::Transaction;

use crate::chain::{BlockSpec, Builder};
use crate::corpus::routed_payment;
use crate::rng::Rng;
use crate::world::*;

#[derive(Clone, Debug)]
pub struct HistoryCfg {
    pub params: Params,
    pub n_actors: usize,
    pub issuance: Vec<Vec<u64>>,
    pub fee: (u64, u64),
    pub amount: (u64, u64),
    pub txs: (usize, usize),
    pub hops_max: usize,
    /// probability (per mille) that a block carries a golden ticket when it is optional
    pub gt_permille: u64,
    /// per mille chance per step to start a fork k blocks below the tip
    pub fork_permille: u64,
    pub gaps: Vec<u64>,
    /// per mille chance that a payment creates a tiny ("dust") output
    pub dust_permille: u64,
    pub replica_key: usize,
    pub max_difficulty: u64,
    /// when set, every payment burns this fraction (per mille) of the spent output as fee
    pub fee_fraction_permille: Option<u64>,
    /// per mille chance per block of an NFT-style [Bound, Normal, Bound] creation whose holder
    /// never spends (so the group reaches the window edge)
    pub nft_permille: u64,
}

impl HistoryCfg {
    pub fn basic(params: Params) -> HistoryCfg {
        let hb = params.heartbeat;
        HistoryCfg {
            params,
            n_actors: 5,
            issuance: crate::corpus::default_issuance(5),
            fee: (0, 5_000),
            amount: (1, 100_000),
            txs: (1, 4),
            hops_max: 3,
            gt_permille: 500,
            fork_permille: 0,
            gaps: vec![2 * hb, 2 * hb + 1, 3 * hb, 10 * hb],
            dust_permille: 0,
            replica_key: 1,
            max_difficulty: 12,
            fee_fraction_permille: None,
            nft_permille: 0,
        }
    }
}

pub struct StepInfo {
    pub hash: Hash,
    pub parent: Hash,
    pub id: u64,
    pub with_gt: bool,
    pub replica_result: Option<Added>,
    pub tip_moved: bool,
    pub reorg: bool,
    pub n_txs: usize,
}

pub struct History {
    pub cfg: HistoryCfg,
    pub b: Builder,
    pub replica: LNode,
    /// the branch currently being extended
    pub head: Hash,
    /// best known tip (by length) of the honest tree
    pub best: Hash,
    pub steps: u64,
    pub forks_started: u64,
}

/// golden tickets in the `n` blocks ending at `h` (inclusive)
pub fn gts_in_last(b: &Builder, h: &Hash, n: usize) -> (usize, usize) {
    let anc = b.store.ancestors(h);
    let take: Vec<&Hash> = anc.iter().rev().take(n).collect();
    (take.iter().filter(|x| b.store.get(x).has_gt).count(), take.len())
}

/// mirror of the density rule: would a child of `parent` be acceptable without a ticket?
pub fn density_ok(b: &Builder, parent: &Hash, child_has_gt: bool) -> bool {
    let (found, depth) = gts_in_last(b, parent, 5);
    if depth < 4 {
        return true;
    }
    let required = 2usize.saturating_sub(6usize.saturating_sub(depth + 1));
    found + (child_has_gt as usize) >= required
}

impl History {
    pub async fn new(cfg: HistoryCfg) -> History {
        let b = Builder::new(&cfg.params, cfg.n_actors, &cfg.issuance).await;
        let mut replica = LNode::new(&b.actors[cfg.replica_key], &cfg.params);
        let g = b.store.get(&b.genesis).bytes.clone();
        let r = replica.add_bytes(&g).await;
        assert_eq!(r, Some(Added::Ok(true)));
        let genesis = b.genesis;
        History { cfg, b, replica, head: genesis, best: genesis, steps: 0, forks_started: 0 }
    }

    pub fn pick_txs(&mut self, rng: &mut Rng, parent: &Hash) -> Vec<Transaction> {
        let n = self.cfg.n_actors;
        let k = rng.range(self.cfg.txs.0 as u64, self.cfg.txs.1 as u64) as usize;
        let mut exclude = vec![];
        let mut txs = vec![];
        for _ in 0..k {
            let from = rng.below(n as u64) as usize;
            let to = rng.below(n as u64) as usize;
            let fee = rng.range(self.cfg.fee.0, self.cfg.fee.1);
            let amount = if rng.below(1000) < self.cfg.dust_permille {
                1 + rng.below(60)
            } else {
                rng.range(self.cfg.amount.0, self.cfg.amount.1)
            };
            let hops = rng.below(self.cfg.hops_max as u64 + 1) as usize;
            if let Some(f) = self.cfg.fee_fraction_permille {
                if let Some(tx) = self.b.payment_fraction(rng, parent, from, to, f, &mut exclude) {
                    txs.push(tx);
                }
                continue;
            }
            if let Some(tx) = routed_payment(&mut self.b, rng, parent, from, to, amount, fee, hops, &mut exclude) {
                txs.push(tx);
            }
        }
        if rng.below(1000) < self.cfg.nft_permille {
            let gp = self.cfg.params.gp;
            let ledger = self.b.store.ledger(parent);
            let a = self.b.actors[1 + rng.below(n as u64 - 1) as usize].clone();
            if let Some(o) = ledger.safe_owned_by(&a.pk, gp).into_iter().find(|o| o.amount > 20_000 && o.slip_type == 0 && !exclude.contains(&o.key())) {
                exclude.push(o.key());
                let holder = crate::world::actors(8)[6 + (self.steps % 2) as usize].pk;
                txs.push(bound_create_tx(&a, &holder, &o, (o.amount / 2).max(10_000) + rng.below(5_000), self.b.store.get(parent).ts + 7));
            }
        }
        if txs.is_empty() {
            let a = self.b.actors[1 + rng.below(n as u64 - 1) as usize].clone();
            txs.push(build_tx(&a, &[], &[], self.b.store.get(parent).ts + 1 + rng.below(50), b"noop"));
        }
        txs
    }

    pub fn pick_gt(&self, rng: &mut Rng, parent: &Hash) -> bool {
        let p = self.b.store.get(parent);
        let mut with_gt = rng.below(1000) < self.cfg.gt_permille;
        if !density_ok(&self.b, parent, with_gt) {
            with_gt = true;
        }
        // keep the mining difficulty low enough for brute force
        if with_gt && p.has_gt && p.block.difficulty >= self.cfg.max_difficulty && density_ok(&self.b, parent, false) {
            with_gt = false;
        }
        with_gt
    }

    /// one more block; returns None when the producer could not build or refused its own block
    pub async fn step(&mut self, rng: &mut Rng) -> Result<StepInfo, String> {
        self.steps += 1;
        // maybe start a fork a few blocks below the current head
        if rng.below(1000) < self.cfg.fork_permille {
            let anc = self.b.store.ancestors(&self.head);
            if anc.len() > 2 {
                let back = 1 + rng.below(3.min(anc.len() as u64 - 1)) as usize;
                self.head = anc[anc.len() - 1 - back];
                self.forks_started += 1;
            }
        }
        let parent = self.head;
        let txs = self.pick_txs(rng, &parent);
        let with_gt = self.pick_gt(rng, &parent);
        let gap = *rng.pick(&self.cfg.gaps);
        let spec = BlockSpec { gap, txs, with_gt, gt_miner: rng.below(self.cfg.n_actors as u64) as usize };
        self.deliver_spec(rng, &parent, &spec).await
    }

    pub async fn deliver_spec(&mut self, rng: &mut Rng, parent: &Hash, spec: &BlockSpec) -> Result<StepInfo, String> {
        let n_txs = spec.txs.len();
        let h = self.b.extend(rng, parent, spec).await?;
        self.head = h;
        if self.b.store.get(&h).id > self.b.store.get(&self.best).id {
            self.best = h;
        }
        let before = self.replica.tip().await;
        let bytes = self.b.store.get(&h).bytes.clone();
        let r = crate::panics::catch_async(self.replica.add_bytes(&bytes)).await;
        let replica_result = match r {
            Ok(x) => x,
            Err(p) => return Err(format!("replica panicked: {} [{}]", p.message, p.signature())),
        };
        let after = self.replica.tip().await;
        let tip_moved = after != before;
        let reorg = tip_moved && !self.b.store.is_ancestor(&before.1, &after.1);
        Ok(StepInfo { hash: h, parent: *parent, id: self.b.store.get(&h).id, with_gt: spec.with_gt, replica_result, tip_moved, reorg, n_txs })
    }
}

/// a transaction creating an NFT-style bound triple [Bound, Normal, Bound] from one output
pub fn bound_create_tx(owner: &Actor, recipient: &PK, o: &OutRef, deposit: u64, ts: u64) -> Transaction {
    use saito_core::core::consensus::slip::SlipType;
    use saito_core::core::consensus::transaction::TransactionType;
    let mut tx = Transaction::default();
    tx.transaction_type = TransactionType::Bound;
    tx.timestamp = ts;
    tx.add_from_slip(o.to_input());
    let mut s1 = out_slip(&owner.pk, 1);
    s1.slip_type = SlipType::Bound;
    let s2 = out_slip(recipient, deposit);
    let mut uuid = [0u8; 33];
    uuid[0..8].copy_from_slice(&o.block_id.to_be_bytes());
    uuid[8..16].copy_from_slice(&o.tx_ordinal.to_be_bytes());
    uuid[16] = o.slip_index;
    uuid[17..21].copy_from_slice(b"test");
    let mut s3 = out_slip(&uuid, 0);
    s3.slip_type = SlipType::Bound;
    tx.add_to_slip(s1);
    tx.add_to_slip(s2);
    tx.add_to_slip(s3);
    // the creation pays a small fee like any other transaction (the wallet's own builder leaves none)
    let fee = if o.amount > deposit + 40 { 25 + (o.amount % 13) } else { 0 };
    if o.amount > deposit + fee {
        tx.add_to_slip(out_slip(&owner.pk, o.amount - deposit - fee));
    }
    tx.sign(&owner.sk);
    tx
}
