//! Monitors over the observable state of a node: canonical snapshot (C04), ledger / index
//! consistency against the reference replay (C03), supply equation in u128 (C02), spend
//! authorisation backstop (C01).
use std::collections::{BTreeMap, BTreeSet};

use saito_core::core::consensus::blockchain::Blockchain;
use saito_core::core::consensus::transaction::TransactionType;
use saito_core::core::consensus::wallet::Wallet;
use saito_core::core::util::crypto::verify_signature;

use crate::chain::{RefLedger, Store, TYPE_BOUND};
use crate::world::*;

// ---------------------------------------------------------------------------------------------
// snapshot of everything a caller can observe (C04)

#[derive(Clone, Debug, PartialEq, Eq)]
pub struct Snapshot {
    pub tip_id: u64,
    pub tip_hash: Hash,
    pub last_id: u64,
    pub last_hash: Hash,
    pub utxo: BTreeMap<[u8; 59], bool>,
    /// by-height longest-chain index over the observed id range
    pub index: BTreeMap<u64, Hash>,
    /// every hash the block ring holds per height (side blocks included)
    pub ring: BTreeMap<u64, BTreeSet<Hash>>,
    /// stored blocks: hash -> (id, in_longest_chain)
    pub blocks: BTreeMap<Hash, (u64, bool)>,
    pub wallet_slips: BTreeSet<[u8; 59]>,
    pub wallet_unspent: BTreeSet<[u8; 59]>,
    pub wallet_balance: u64,
    pub mempool_txs: BTreeSet<Vec<u8>>,
}

pub fn index_of(chain: &Blockchain, max_id: u64) -> BTreeMap<u64, Hash> {
    let mut index = BTreeMap::new();
    let lo = max_id.saturating_sub(2 * chain.genesis_period);
    for id in lo..=max_id {
        if let Some(h) = chain.blockring.get_longest_chain_block_hash_at_block_id(id) {
            index.insert(id, h);
        }
    }
    index
}

pub fn snapshot(chain: &Blockchain, wallet: &Wallet, mempool_sigs: BTreeSet<Vec<u8>>) -> Snapshot {
    let max_id = chain.blocks.values().map(|b| b.id).max().unwrap_or(0).max(chain.get_latest_block_id()).saturating_add(2);
    Snapshot {
        tip_id: chain.get_latest_block_id(),
        tip_hash: chain.get_latest_block_hash(),
        last_id: chain.last_block_id,
        last_hash: chain.last_block_hash,
        utxo: chain.utxoset.iter().map(|(k, v)| (*k, *v)).collect(),
        index: index_of(chain, max_id),
        ring: {
            let lo = max_id.saturating_sub(2 * chain.genesis_period);
            (lo..=max_id).map(|id| (id, chain.blockring.get_block_hashes_at_block_id(id).into_iter().collect::<BTreeSet<Hash>>())).filter(|(_, v)| !v.is_empty()).collect()
        },
        blocks: chain.blocks.iter().map(|(h, b)| (*h, (b.id, b.in_longest_chain))).collect(),
        wallet_slips: wallet.slips.keys().cloned().collect(),
        wallet_unspent: wallet.unspent_slips.iter().cloned().collect(),
        wallet_balance: wallet.get_available_balance(),
        mempool_txs: mempool_sigs,
    }
}

pub async fn snapshot_of(node: &LNode) -> Snapshot {
    let chain = node.chain.read().await;
    let wallet = node.wallet.read().await;
    let mempool = node.mempool.read().await;
    let sigs = mempool.transactions.keys().map(|s| s.to_vec()).collect();
    snapshot(&chain, &wallet, sigs)
}

pub fn diff(a: &Snapshot, b: &Snapshot) -> Vec<String> {
    let mut d = vec![];
    if (a.tip_id, a.tip_hash) != (b.tip_id, b.tip_hash) {
        d.push(format!("tip {}:{} -> {}:{}", a.tip_id, short(&a.tip_hash), b.tip_id, short(&b.tip_hash)));
    }
    if (a.last_id, a.last_hash) != (b.last_id, b.last_hash) {
        d.push(format!("last_block {}:{} -> {}:{}", a.last_id, short(&a.last_hash), b.last_id, short(&b.last_hash)));
    }
    if a.utxo != b.utxo {
        let gone = a.utxo.keys().filter(|k| !b.utxo.contains_key(*k)).count();
        let new = b.utxo.keys().filter(|k| !a.utxo.contains_key(*k)).count();
        let flipped = a.utxo.iter().filter(|(k, v)| b.utxo.get(*k).map(|w| w != *v).unwrap_or(false)).count();
        d.push(format!("utxoset: {} keys gone, {} new, {} flipped", gone, new, flipped));
    }
    if a.index != b.index {
        let mut ids: BTreeSet<u64> = a.index.keys().cloned().collect();
        ids.extend(b.index.keys().cloned());
        let ch: Vec<String> = ids
            .iter()
            .filter(|i| a.index.get(*i) != b.index.get(*i))
            .map(|i| format!("{}:{}->{}", i, a.index.get(i).map(|h| short(h)).unwrap_or("-".into()), b.index.get(i).map(|h| short(h)).unwrap_or("-".into())))
            .collect();
        d.push(format!("chain index: {}", ch.join(" ")));
    }
    if a.ring != b.ring {
        let mut ids: BTreeSet<u64> = a.ring.keys().cloned().collect();
        ids.extend(b.ring.keys().cloned());
        let ch: Vec<String> = ids.iter().filter(|i| a.ring.get(*i) != b.ring.get(*i)).map(|i| format!("{}:{}->{} entries", i, a.ring.get(i).map(|v| v.len()).unwrap_or(0), b.ring.get(i).map(|v| v.len()).unwrap_or(0))).collect();
        d.push(format!("block ring: {}", ch.join(" ")));
    }
    if a.blocks != b.blocks {
        let gone = a.blocks.keys().filter(|k| !b.blocks.contains_key(*k)).count();
        let new = b.blocks.keys().filter(|k| !a.blocks.contains_key(*k)).count();
        let flags = a.blocks.iter().filter(|(k, v)| b.blocks.get(*k).map(|w| w != *v).unwrap_or(false)).count();
        d.push(format!("stored blocks: {} gone, {} new, {} flag changes", gone, new, flags));
    }
    if a.wallet_slips != b.wallet_slips || a.wallet_unspent != b.wallet_unspent || a.wallet_balance != b.wallet_balance {
        d.push(format!(
            "wallet: slips {}->{} unspent {}->{} balance {}->{}",
            a.wallet_slips.len(), b.wallet_slips.len(), a.wallet_unspent.len(), b.wallet_unspent.len(), a.wallet_balance, b.wallet_balance
        ));
    }
    if a.mempool_txs != b.mempool_txs {
        d.push(format!("mempool txs {}->{}", a.mempool_txs.len(), b.mempool_txs.len()));
    }
    d
}

/// names of the snapshot components that differ (used in violation signatures)
pub fn diff_kinds(a: &Snapshot, b: &Snapshot) -> Vec<&'static str> {
    let mut k = vec![];
    if (a.tip_id, a.tip_hash) != (b.tip_id, b.tip_hash) || (a.last_id, a.last_hash) != (b.last_id, b.last_hash) {
        k.push("tip");
    }
    if a.utxo != b.utxo {
        k.push("utxoset");
    }
    if a.index != b.index {
        k.push("index");
    }
    if a.ring != b.ring {
        k.push("ring");
    }
    if a.blocks != b.blocks {
        k.push("blocks");
    }
    if a.wallet_slips != b.wallet_slips || a.wallet_unspent != b.wallet_unspent || a.wallet_balance != b.wallet_balance {
        k.push("wallet");
    }
    if a.mempool_txs != b.mempool_txs {
        k.push("mempool");
    }
    k
}

pub fn short(h: &[u8]) -> String {
    hex::encode(&h[..4.min(h.len())])
}

// ---------------------------------------------------------------------------------------------
// C03: ledger / index / flags / tip all describe the ancestry of the reported tip

pub struct Finding {
    pub clause: &'static str,
    pub detail: String,
}

pub fn check_consistency(chain: &Blockchain, store: &mut Store, gp: u64) -> Vec<Finding> {
    let mut out = vec![];
    let tip_id = chain.get_latest_block_id();
    let tip_hash = chain.get_latest_block_hash();
    // 4. the two reports of the tip agree
    if chain.blocks.is_empty() {
        return out;
    }
    if tip_hash == [0; 32] || tip_id == 0 {
        out.push(Finding { clause: "tip-lost", detail: format!("node holds {} blocks but reports tip id {} hash {}", chain.blocks.len(), tip_id, short(&tip_hash)) });
        return out;
    }
    // note: Blockchain.last_block_id/hash are NOT compared with the tip. They are seeded from the
    // configuration at start-up and only ever move forward ("last block seen"), so they may
    // legitimately differ from the current tip (DESIGN section 11).
    match chain.blocks.get(&tip_hash) {
        Some(b) if b.id == tip_id => {}
        _ => out.push(Finding { clause: "tip-reports-disagree", detail: format!("tip id {} / hash {} do not name one stored block", tip_id, short(&tip_hash)) }),
    }
    if !store.has(&tip_hash) {
        out.push(Finding { clause: "tip-unknown", detail: format!("tip {} is not a block the harness delivered", short(&tip_hash)) });
        return out;
    }
    let anc = store.ancestors(&tip_hash);
    if store.get(&tip_hash).id != tip_id {
        out.push(Finding { clause: "tip-id", detail: format!("tip id {} but block has id {}", tip_id, store.get(&tip_hash).id) });
    }
    // 2. by-height index == ancestors of the tip, nothing above
    let anc_by_id: BTreeMap<u64, Hash> = anc.iter().map(|h| (store.get(h).id, *h)).collect();
    let max_known = chain.blocks.values().map(|b| b.id).max().unwrap_or(tip_id).max(tip_id) + 2;
    let lo = tip_id.saturating_sub(gp);
    for id in lo.max(1)..=max_known {
        let got = chain.blockring.get_longest_chain_block_hash_at_block_id(id);
        let want = if id <= tip_id { anc_by_id.get(&id).cloned() } else { None };
        if got != want {
            out.push(Finding {
                clause: if id > tip_id { "index-above-tip" } else { "index-mismatch" },
                detail: format!("index at id {} is {} but the tip's ancestry has {}", id, got.map(|h| short(&h)).unwrap_or("none".into()), want.map(|h| short(&h)).unwrap_or("none".into())),
            });
            break;
        }
    }
    // 3. in_longest_chain flag <=> ancestor of the tip
    let anc_set: BTreeSet<Hash> = anc.iter().cloned().collect();
    for (h, b) in chain.blocks.iter() {
        if b.in_longest_chain != anc_set.contains(h) {
            out.push(Finding {
                clause: if b.in_longest_chain { "flag-set-off-chain" } else { "flag-unset-on-chain" },
                detail: format!("block {}:{} in_longest_chain={} but ancestor-of-tip={}", b.id, short(h), b.in_longest_chain, anc_set.contains(h)),
            });
            break;
        }
    }
    // 1. spendable set == literal replay of the tip's ancestry (in-window part)
    let ledger = store.ledger(&tip_hash);
    let mut missing = 0;
    let mut extra = 0;
    let mut extra_in_window = 0;
    let mut example = String::new();
    for (k, o) in ledger.utxo.iter() {
        if !ledger.in_window(o, gp) {
            continue;
        }
        if chain.utxoset.get(k) != Some(&true) {
            missing += 1;
            if example.is_empty() {
                example = format!("missing {} amount {} created {}-{}-{} type {}", short(&o.owner), o.amount, o.block_id, o.tx_ordinal, o.slip_index, o.slip_type);
            }
        }
    }
    for (k, v) in chain.utxoset.iter() {
        if !*v {
            extra += 1;
            if example.is_empty() {
                example = "an entry with value false".into();
            }
            continue;
        }
        if !ledger.utxo.contains_key(k) {
            let block_id = u64::from_be_bytes(k[33..41].try_into().unwrap());
            // out-of-window keys may only be a subset of the reference; in-window must be equal
            extra += 1;
            if block_id >= ledger.tip_id.saturating_sub(gp) {
                extra_in_window += 1;
            }
            if example.is_empty() {
                example = format!("extra key of {} created in block {} amount {}", short(&k[0..33]), block_id, u64::from_be_bytes(k[50..58].try_into().unwrap()));
            }
        }
    }
    if missing > 0 || extra > 0 {
        out.push(Finding {
            // (extra entries older than the window, which nothing can spend any more, do not
            // change the class of a finding about missing in-window outputs)
            clause: if missing > 0 && extra_in_window > 0 {
                "utxo-missing-and-extra"
            } else if missing > 0 {
                "utxo-missing"
            } else if extra_in_window == 0 {
                // only entries older than the window, which no transaction can spend any more
                "utxo-extra-outside-window-only"
            } else {
                "utxo-extra"
            },
            detail: format!("spendable set differs from the replay of the tip's ancestry: {} missing, {} extra ({})", missing, extra, example),
        });
    }
    out
}

// ---------------------------------------------------------------------------------------------
// C02: supply equation in exact arithmetic

pub fn supply(chain: &Blockchain, gp: u64) -> Option<u128> {
    let tip = chain.get_latest_block()?;
    let mut total: u128 = 0;
    for (k, v) in chain.utxoset.iter() {
        if !*v {
            continue;
        }
        if k[58] == TYPE_BOUND {
            continue;
        }
        let block_id = u64::from_be_bytes(k[33..41].try_into().unwrap());
        if block_id < tip.id.saturating_sub(gp) {
            continue;
        }
        total += u64::from_be_bytes(k[50..58].try_into().unwrap()) as u128;
    }
    total += tip.treasury as u128;
    total += tip.graveyard as u128;
    total += tip.previous_block_unpaid as u128;
    total += tip.total_fees as u128;
    Some(total)
}

// ---------------------------------------------------------------------------------------------
// C01 backstop: every value-carrying input of every user transaction of a block wound onto
// the longest chain is authorised, existing, unspent, in window

pub fn check_spends(block: &saito_core::core::consensus::block::Block, parent_ledger: &RefLedger, gp: u64) -> Vec<Finding> {
    let mut out = vec![];
    let mut spent_in_block: BTreeSet<[u8; 59]> = BTreeSet::new();
    for (ti, tx) in block.transactions.iter().enumerate() {
        match tx.transaction_type {
            TransactionType::Normal | TransactionType::Bound | TransactionType::BlockStake | TransactionType::Vip | TransactionType::GoldenTicket => {}
            _ => continue,
        }
        let mut signer_ok: Option<bool> = None;
        for input in &tx.from {
            if input.amount == 0 || input.slip_type as u8 == TYPE_BOUND {
                continue;
            }
            let k = ref_key(&input.public_key, input.block_id, input.tx_ordinal, input.slip_index, input.amount, input.slip_type as u8);
            if !spent_in_block.insert(k) {
                out.push(Finding { clause: "input-repeated", detail: format!("tx {} of block {} spends an output already spent in this block / tx", ti, block.id) });
                continue;
            }
            match parent_ledger.utxo.get(&k) {
                None => out.push(Finding { clause: "input-not-unspent", detail: format!("tx {} of block {} spends an output that does not exist or is already spent on this chain (amount {}, created in {})", ti, block.id, input.amount, input.block_id) }),
                Some(o) => {
                    if o.block_id < block.id.saturating_sub(gp) {
                        out.push(Finding { clause: "input-expired", detail: format!("tx {} of block {} spends an output created in block {} (window {})", ti, block.id, o.block_id, gp) });
                    }
                }
            }
            // ownership: the key that authorises the transaction must own every input
            let ok = *signer_ok.get_or_insert_with(|| {
                let mut t = tx.clone();
                t.generate_hash_for_signature();
                verify_signature(&t.hash_for_signature.unwrap(), &t.signature, &input.public_key)
            });
            let sig_by_owner = if ok && tx.from[0].public_key == input.public_key {
                true
            } else {
                let mut t = tx.clone();
                t.generate_hash_for_signature();
                verify_signature(&t.hash_for_signature.unwrap(), &t.signature, &input.public_key)
            };
            if !sig_by_owner {
                out.push(Finding { clause: "input-not-authorised", detail: format!("tx {} of block {} spends an output of {} without a signature by that key", ti, block.id, short(&input.public_key)) });
            }
        }
    }
    out
}
