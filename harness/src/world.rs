//! Configuration, clock, actors and the "light node" (blockchain + mempool + wallet + storage
//! over a MemIo) that the ledger-level properties drive directly.
use std::ops::Deref;
use std::sync::atomic::{AtomicU64, Ordering};
use std::sync::Arc;

use ahash::AHashMap;
use saito_core::core::consensus::block::{Block, BlockType};
use saito_core::core::consensus::blockchain::{AddBlockResult, Blockchain};
use saito_core::core::consensus::golden_ticket::GoldenTicket;
use saito_core::core::consensus::mempool::Mempool;
use saito_core::core::consensus::slip::{Slip, SlipType};
use saito_core::core::consensus::transaction::{Transaction, TransactionType};
use saito_core::core::consensus::wallet::Wallet;
use saito_core::core::defs::{
    Currency, SaitoHash, SaitoPrivateKey, SaitoPublicKey, SaitoSignature, Timestamp,
};
use saito_core::core::io::storage::Storage;
use saito_core::core::process::keep_time::{KeepTime, Timer};
use saito_core::core::util::configuration::{
    BlockchainConfig, Configuration, ConsensusConfig, Endpoint, PeerConfig, Server,
};
use saito_core::core::util::crypto::{generate_keypair_from_private_key, hash};
pub use saito_core::core::util::verif::RwLock;

use crate::io::MemIo;
use crate::rng::Rng;

pub type Hash = SaitoHash;
pub type PK = SaitoPublicKey;

// ---------------------------------------------------------------------------------------------
// parameters

#[derive(Clone, Debug)]
pub struct Params {
    pub gp: u64,
    pub heartbeat: u64,
    pub prune_after: u64,
    pub stake: Currency,
    pub stake_period: u64,
    pub issuance_interval: u64,
    pub spv: bool,
    pub browser: bool,
    /// `BlockchainConfig.initial_loading_completed` — never set by saito-rust, hence false
    pub loading_completed: bool,
    pub batch_size: u64,
}

impl Default for Params {
    fn default() -> Self {
        Params {
            gp: 100,
            heartbeat: 5_000,
            prune_after: 8,
            stake: 0,
            stake_period: 60,
            issuance_interval: 0,
            spv: false,
            browser: false,
            loading_completed: false,
            batch_size: 10,
        }
    }
}

impl Params {
    pub fn with_gp(gp: u64) -> Params {
        Params {
            gp,
            ..Default::default()
        }
    }
    pub fn describe(&self) -> String {
        format!(
            "gp={} hb={} prune={} stake={} spv={} browser={} loaded={}",
            self.gp,
            self.heartbeat,
            self.prune_after,
            self.stake,
            self.spv,
            self.browser,
            self.loading_completed
        )
    }
}

/// The harness's `Configuration`. The type name deliberately contains "Config" (hook H2 derives
/// the lock rank from it).
#[derive(Debug, Clone)]
pub struct HarnessConfig {
    pub server: Option<Server>,
    pub peers: Vec<PeerConfig>,
    pub blockchain: BlockchainConfig,
    pub spv_mode: bool,
    pub browser_mode: bool,
    pub consensus: Option<ConsensusConfig>,
    pub fetch_url: String,
}

impl HarnessConfig {
    pub fn new(p: &Params) -> HarnessConfig {
        HarnessConfig {
            server: Some(Server {
                host: "localhost".to_string(),
                port: 12100,
                protocol: "http".to_string(),
                endpoint: Endpoint {
                    host: "localhost".to_string(),
                    port: 12101,
                    protocol: "http".to_string(),
                },
                verification_threads: 1,
                channel_size: 1000,
                stat_timer_in_ms: 10_000,
                thread_sleep_time_in_ms: 10,
                block_fetch_batch_size: p.batch_size,
                reconnection_wait_time: 10_000,
            }),
            peers: vec![],
            blockchain: BlockchainConfig {
                last_block_hash: "0".repeat(64),
                last_block_id: 0,
                last_timestamp: 0,
                genesis_block_id: 0,
                genesis_timestamp: 0,
                lowest_acceptable_timestamp: 0,
                lowest_acceptable_block_hash: "0".repeat(64),
                lowest_acceptable_block_id: 0,
                fork_id: "0".repeat(64),
                initial_loading_completed: p.loading_completed,
                issuance_writing_block_interval: p.issuance_interval,
            },
            spv_mode: p.spv,
            browser_mode: p.browser,
            consensus: Some(ConsensusConfig {
                genesis_period: p.gp,
                heartbeat_interval: p.heartbeat,
                prune_after_blocks: p.prune_after,
                max_staker_recursions: 3,
                default_social_stake: p.stake,
                default_social_stake_period: p.stake_period,
            }),
            fetch_url: "http://localhost:12101".to_string(),
        }
    }
}

impl Configuration for HarnessConfig {
    fn get_server_configs(&self) -> Option<&Server> {
        self.server.as_ref()
    }
    fn get_peer_configs(&self) -> &Vec<PeerConfig> {
        &self.peers
    }
    fn get_blockchain_configs(&self) -> &BlockchainConfig {
        &self.blockchain
    }
    fn get_block_fetch_url(&self) -> String {
        self.fetch_url.clone()
    }
    fn is_spv_mode(&self) -> bool {
        self.spv_mode
    }
    fn is_browser(&self) -> bool {
        self.browser_mode
    }
    fn replace(&mut self, config: &dyn Configuration) {
        self.server = config.get_server_configs().cloned();
        self.peers = config.get_peer_configs().clone();
        self.blockchain = config.get_blockchain_configs().clone();
        self.spv_mode = config.is_spv_mode();
        self.browser_mode = config.is_browser();
        self.consensus = config.get_consensus_config().cloned();
    }
    fn get_consensus_config(&self) -> Option<&ConsensusConfig> {
        self.consensus.as_ref()
    }
}

pub type CfgLock = Arc<RwLock<dyn Configuration + Send + Sync>>;

pub fn cfg_lock(p: &Params) -> CfgLock {
    Arc::new(RwLock::new(HarnessConfig::new(p)))
}

// ---------------------------------------------------------------------------------------------
// virtual clock

#[derive(Clone, Debug)]
pub struct VClock {
    pub now: Arc<AtomicU64>,
}

pub const T0: Timestamp = 1_700_000_000_000;

impl VClock {
    pub fn new(start: Timestamp) -> VClock {
        VClock {
            now: Arc::new(AtomicU64::new(start)),
        }
    }
    pub fn get(&self) -> Timestamp {
        self.now.load(Ordering::SeqCst)
    }
    pub fn set(&self, t: Timestamp) {
        self.now.store(t, Ordering::SeqCst);
    }
    pub fn advance(&self, ms: u64) -> Timestamp {
        self.now.fetch_add(ms, Ordering::SeqCst) + ms
    }
    pub fn timer(&self) -> Timer {
        Timer {
            time_reader: Arc::new(self.clone()),
            hasten_multiplier: 1,
            start_time: 0,
        }
    }
}

impl KeepTime for VClock {
    fn get_timestamp_in_ms(&self) -> Timestamp {
        self.get()
    }
}

// ---------------------------------------------------------------------------------------------
// actors

#[derive(Clone, Debug)]
pub struct Actor {
    pub name: &'static str,
    pub sk: SaitoPrivateKey,
    pub pk: SaitoPublicKey,
}

const ACTOR_NAMES: [&str; 8] = [
    "creator", "victim", "attacker", "router1", "router2", "light", "miner", "other",
];

/// Deterministic key universe: private key i = blake3("svh-actor-" + i + seed-independent salt).
pub fn actors(n: usize) -> Vec<Actor> {
    (0..n)
        .map(|i| {
            let sk: SaitoPrivateKey = hash(format!("svh-actor-{}", i).as_bytes());
            let (pk, sk) = generate_keypair_from_private_key(&sk);
            Actor {
                name: ACTOR_NAMES[i % ACTOR_NAMES.len()],
                sk,
                pk,
            }
        })
        .collect()
}

pub fn actor_name(actors: &[Actor], pk: &PK) -> String {
    for a in actors {
        if &a.pk == pk {
            return a.name.to_string();
        }
    }
    if pk == &[0u8; 33] {
        return "zero".to_string();
    }
    format!("key:{}", &hex::encode(pk)[..8])
}

// ---------------------------------------------------------------------------------------------
// transaction building blocks

/// an output as the reference ledger sees it; enough to build an input slip that spends it
#[derive(Clone, Debug, PartialEq, Eq, PartialOrd, Ord)]
pub struct OutRef {
    pub owner: PK,
    pub amount: u64,
    pub block_id: u64,
    pub tx_ordinal: u64,
    pub slip_index: u8,
    pub slip_type: u8,
}

pub fn slip_type_from(v: u8) -> SlipType {
    match v {
        0 => SlipType::Normal,
        1 => SlipType::ATR,
        2 => SlipType::VipInput,
        3 => SlipType::VipOutput,
        4 => SlipType::MinerInput,
        5 => SlipType::MinerOutput,
        6 => SlipType::RouterInput,
        7 => SlipType::RouterOutput,
        8 => SlipType::BlockStake,
        _ => SlipType::Bound,
    }
}

impl OutRef {
    pub fn key(&self) -> [u8; 59] {
        ref_key(
            &self.owner,
            self.block_id,
            self.tx_ordinal,
            self.slip_index,
            self.amount,
            self.slip_type,
        )
    }
    pub fn to_input(&self) -> Slip {
        let mut s = Slip::default();
        s.public_key = self.owner;
        s.amount = self.amount;
        s.block_id = self.block_id;
        s.tx_ordinal = self.tx_ordinal;
        s.slip_index = self.slip_index;
        s.slip_type = slip_type_from(self.slip_type);
        s
    }
}

/// The 59-byte utxo key layout, written independently of `Slip::get_utxoset_key`.
pub fn ref_key(
    owner: &PK,
    block_id: u64,
    tx_ordinal: u64,
    slip_index: u8,
    amount: u64,
    slip_type: u8,
) -> [u8; 59] {
    let mut k = [0u8; 59];
    k[0..33].copy_from_slice(owner);
    k[33..41].copy_from_slice(&block_id.to_be_bytes());
    k[41..49].copy_from_slice(&tx_ordinal.to_be_bytes());
    k[49] = slip_index;
    k[50..58].copy_from_slice(&amount.to_be_bytes());
    k[58] = slip_type;
    k
}

pub fn out_slip(to: &PK, amount: u64) -> Slip {
    let mut s = Slip::default();
    s.public_key = *to;
    s.amount = amount;
    s
}

/// Build and sign a normal transaction spending `inputs` (all owned by `signer`) into `outputs`.
pub fn build_tx(
    signer: &Actor,
    inputs: &[OutRef],
    outputs: &[(PK, u64)],
    ts: Timestamp,
    data: &[u8],
) -> Transaction {
    let mut tx = Transaction::default();
    tx.timestamp = ts;
    tx.data = data.to_vec();
    if inputs.is_empty() {
        tx.add_from_slip(out_slip(&signer.pk, 0));
    }
    for i in inputs {
        tx.add_from_slip(i.to_input());
    }
    for (to, amount) in outputs {
        tx.add_to_slip(out_slip(to, *amount));
    }
    if outputs.is_empty() {
        tx.add_to_slip(out_slip(&signer.pk, 0));
    }
    tx.sign(&signer.sk);
    tx
}

/// append routing hops: sender -> path[0] -> path[1] ... ; each hop signed by its `from`
pub fn add_path(tx: &mut Transaction, sender: &Actor, path: &[&Actor]) {
    let mut from = sender;
    for to in path {
        if from.pk == to.pk {
            continue;
        }
        tx.add_hop(&from.sk, &from.pk, &to.pk);
        from = to;
    }
}

/// brute-force a golden ticket for `target` at `difficulty` (low difficulties only)
pub fn mine_gt(rng: &mut Rng, target: Hash, difficulty: u64, miner: &PK) -> GoldenTicket {
    loop {
        let random = hash(&rng.bytes(32));
        let gt = GoldenTicket::create(target, random, *miner);
        if gt.validate(difficulty) {
            return gt;
        }
    }
}

pub fn gt_tx(gt: &GoldenTicket, signer: &Actor) -> Transaction {
    // same construction as Wallet::create_golden_ticket_transaction
    let mut tx = Transaction::default();
    tx.transaction_type = TransactionType::GoldenTicket;
    tx.data = gt.serialize_for_net();
    tx.add_from_slip(out_slip(&signer.pk, 0));
    tx.add_to_slip(out_slip(&signer.pk, 0));
    tx.sign(&signer.sk);
    tx
}

// ---------------------------------------------------------------------------------------------
// light node

#[derive(Debug, Clone, PartialEq, Eq)]
pub enum Added {
    /// accepted; bool = on the longest chain
    Ok(bool),
    Exists,
    Retry,
    Invalid,
}

impl Added {
    pub fn from(r: &AddBlockResult) -> Added {
        match r {
            AddBlockResult::BlockAddedSuccessfully(_, lc, _) => Added::Ok(*lc),
            AddBlockResult::BlockAlreadyExists => Added::Exists,
            AddBlockResult::FailedButRetry(..) => Added::Retry,
            AddBlockResult::FailedNotValid => Added::Invalid,
        }
    }
    pub fn accepted(&self) -> bool {
        matches!(self, Added::Ok(_))
    }
    pub fn short(&self) -> &'static str {
        match self {
            Added::Ok(true) => "ok-lc",
            Added::Ok(false) => "ok-side",
            Added::Exists => "exists",
            Added::Retry => "retry",
            Added::Invalid => "invalid",
        }
    }
}

pub struct LNode {
    pub key: Actor,
    pub params: Params,
    pub wallet: Arc<RwLock<Wallet>>,
    pub chain: Arc<RwLock<Blockchain>>,
    pub mempool: Arc<RwLock<Mempool>>,
    pub cfg: CfgLock,
    pub storage: Storage,
    pub io: MemIo,
}

impl LNode {
    pub fn new(key: &Actor, params: &Params) -> LNode {
        Self::with_io(key, params, MemIo::new())
    }
    pub fn with_io(key: &Actor, params: &Params, io: MemIo) -> LNode {
        let wallet = Arc::new(RwLock::new(Wallet::new(key.sk, key.pk)));
        let chain = Arc::new(RwLock::new(Blockchain::new(
            wallet.clone(),
            params.gp,
            params.stake,
            params.stake_period,
        )));
        let mempool = Arc::new(RwLock::new(Mempool::new(wallet.clone())));
        LNode {
            key: key.clone(),
            params: params.clone(),
            wallet,
            chain,
            mempool,
            cfg: cfg_lock(params),
            storage: Storage::new(io.boxed()),
            io,
        }
    }

    /// `Blockchain::add_block` with the lock order the real callers use (configs, blockchain,
    /// mempool)
    pub async fn add_block(&mut self, block: Block) -> AddBlockResult {
        let cfg = self.cfg.read().await;
        let mut chain = self.chain.write().await;
        let mut mempool = self.mempool.write().await;
        chain
            .add_block(block, &mut self.storage, &mut mempool, cfg.deref())
            .await
    }

    pub async fn add_bytes(&mut self, bytes: &[u8]) -> Option<Added> {
        let block = Block::deserialize_from_net(bytes).ok()?;
        Some(Added::from(&self.add_block(block).await))
    }

    pub async fn tip(&self) -> (u64, Hash) {
        let chain = self.chain.read().await;
        (chain.get_latest_block_id(), chain.get_latest_block_hash())
    }

    /// Honest block production through the real `Block::create` on `parent` (which this node
    /// must hold). Transactions must already be signed; they are `generate`d for this creator
    /// here exactly as `Mempool::add_transaction_if_validates` does.
    pub async fn create_block(
        &self,
        parent: Hash,
        ts: Timestamp,
        txs: Vec<Transaction>,
        gt: Option<Transaction>,
    ) -> Result<Block, String> {
        let cfg = self.cfg.read().await;
        let chain = self.chain.read().await;
        let mut map: AHashMap<SaitoSignature, Transaction> = AHashMap::new();
        for mut tx in txs {
            tx.generate(&self.key.pk, 0, 0);
            map.insert(tx.signature, tx);
        }
        let gt = gt.map(|mut g| {
            g.generate(&self.key.pk, 0, 0);
            g
        });
        if chain.social_stake_requirement > 0 && parent != [0; 32] {
            // same call as Mempool::bundle_block; made on a copy of the wallet so that a block
            // which is never added leaves the producer's wallet untouched
            let mut w = self.wallet.read().await.clone();
            let gp = cfg.get_consensus_config().unwrap().genesis_period;
            let mut stx = w
                .create_staking_transaction(
                    chain.social_stake_requirement,
                    chain.get_latest_unlocked_stake_block_id(),
                    (chain.get_latest_block_id() + 1).saturating_sub(gp),
                )
                .map_err(|e| format!("staking tx: {}", e))?;
            stx.generate(&self.key.pk, 0, 0);
            map.insert(stx.signature, stx);
        }
        Block::create(
            &mut map,
            parent,
            &chain,
            ts,
            &self.key.pk,
            &self.key.sk,
            gt,
            cfg.deref(),
            &self.storage,
        )
        .await
        .map_err(|e| e.to_string())
    }

    pub async fn clone_block(&self, h: &Hash) -> Option<Block> {
        self.chain.read().await.blocks.get(h).cloned()
    }
}

pub fn block_bytes(b: &Block) -> Vec<u8> {
    b.serialize_for_net(BlockType::Full)
}

/// genesis block: issuance transactions to the given (key, amount) pairs, created and signed by
/// `creator` through the real `Block::create` (parent = zero hash), like
/// `Mempool::bundle_genesis_block`.
pub async fn make_genesis(node: &LNode, ts: Timestamp, issuance: &[(PK, u64)]) -> Block {
    let mut txs = vec![];
    for (i, (pk, amount)) in issuance.iter().enumerate() {
        let mut tx = Transaction::create_issuance_transaction(*pk, *amount);
        // distinct timestamps: identical issuance transactions would have identical signatures
        // and collapse into one entry of the producer's signature-keyed pool
        tx.timestamp = ts + i as u64;
        tx.generate(&node.key.pk, 0, 0);
        tx.sign(&node.key.sk);
        txs.push(tx);
    }
    node.create_block([0; 32], ts, txs, None)
        .await
        .expect("genesis creation")
}
