//! svh — saito verification harness (runtime monitors and workloads; see /verif/DESIGN.md)
pub mod alloc;
pub mod chain;
pub mod corpus;
pub mod history;
pub mod io;
pub mod lockmon;
pub mod logsink;
pub mod monitors;
pub mod node;
pub mod panics;
pub mod props;
pub mod report;
pub mod rng;
pub mod watch;
pub mod world;
