//! C12 — restart rebuilds the same ledger; a crash at any storage step is survivable.
//! Node A (the real Blockchain::add_block over the journaling in-memory I/O) lives through a
//! generated history with forks, pruning and (short windows) rebroadcast. For every prefix of the
//! journal of storage operations it produced — the last write complete, absent or torn at each
//! byte-class boundary — the file map is materialised and node B boots from it through the real
//! ConsensusThread::on_init. Oracles on B: no panic, tip among the allowed blocks, index / utxo
//! consistency, supply, and it accepts one more honest block.
use std::collections::{BTreeMap, BTreeSet};

use serde_json::json;

use crate::chain::BlockSpec;
use crate::history::{History, HistoryCfg};
use crate::io::{JournalKind, JournalOp, MemIo, BLOCK_DIR};
use crate::monitors::{check_consistency, snapshot, supply};
use crate::node::Node;
use crate::props::Ctx;
use crate::report::Report;
use crate::rng::Rng;
use crate::world::*;

/// what A looked like right after journal op `upto` (exclusive) had been issued
#[derive(Clone)]
struct Mark {
    /// number of journal ops issued when the step completed
    ops: usize,
    tip: Hash,
    tip_id: u64,
    /// every block hash delivered to A so far
    known: BTreeSet<Hash>,
    /// in-window spendable utxo keys of A and its supply
    utxo: BTreeSet<[u8; 59]>,
    supply: Option<u128>,
}

fn apply_op(files: &mut BTreeMap<String, Vec<u8>>, op: &JournalOp, data: Option<&[u8]>) {
    match op.kind {
        JournalKind::Write => {
            files.insert(op.key.clone(), data.unwrap_or(&op.data).to_vec());
        }
        JournalKind::Append => {
            files.entry(op.key.clone()).or_default().extend_from_slice(data.unwrap_or(&op.data));
        }
        JournalKind::Remove => {
            files.remove(&op.key);
        }
    }
}

/// byte-class boundaries of a block file: inside the length prefix, around the header end, in and
/// after the first transaction, one byte short
fn cuts(data: &[u8]) -> Vec<usize> {
    const HEADER: usize = 301;
    let mut v = vec![0usize, 3, 4, HEADER - 1, HEADER, HEADER + 1, HEADER + 16];
    if data.len() > HEADER + 40 {
        v.push(HEADER + (data.len() - HEADER) / 3);
        v.push(HEADER + 2 * (data.len() - HEADER) / 3);
    }
    if !data.is_empty() {
        v.push(data.len() - 1);
    }
    v.retain(|c| *c < data.len());
    v.sort();
    v.dedup();
    v
}

fn in_window_utxo(chain: &saito_core::core::consensus::blockchain::Blockchain, gp: u64) -> BTreeSet<[u8; 59]> {
    let tip = chain.get_latest_block_id();
    chain
        .utxoset
        .iter()
        .filter(|(_, v)| **v)
        .filter_map(|(k, _)| {
            let s = saito_core::core::consensus::slip::Slip::parse_slip_from_utxokey(k).ok()?;
            if s.block_id >= tip.saturating_sub(gp) && s.amount > 0 {
                Some(*k)
            } else {
                None
            }
        })
        .collect()
}

struct Case<'a> {
    files: BTreeMap<String, Vec<u8>>,
    /// the mark that describes A at the crash point (what A knew / where its tip was)
    mark: &'a Mark,
    /// blocks whose delivery was in progress when the crash happened (also allowed as tip)
    in_progress: Vec<Hash>,
    clean: bool,
    label: String,
}

async fn boot_and_judge(h: &mut History, case: Case<'_>, rng: &mut Rng, rep: &mut Report, witness: &serde_json::Value) {
    let gp = h.cfg.params.gp;
    rep.eval();
    rep.count("boots");
    rep.count(if case.clean { "boots.clean-shutdown" } else { "boots.crash" });
    let key = h.b.actors[h.cfg.replica_key].clone();
    let io = MemIo::from_files(case.files.clone());
    let mut node = Node::new(&key, &h.cfg.params, io, VClock::new(T0 + 7_200_000), vec![], "http://b.example:1");
    let wit = || {
        let mut w = witness.clone();
        w["case"] = json!(case.label);
        w["files"] = json!(case.files.iter().filter(|(k, _)| k.starts_with(BLOCK_DIR)).map(|(k, v)| (k.clone(), v.len())).collect::<Vec<_>>());
        w
    };
    if let Err(p) = node.init().await {
        rep.violation(
            &format!("C12|clause=restart-panics|{}", p.signature()),
            &format!("boot from the files of case '{}' panicked at {}:{}: {}", case.label, p.rel_file(), p.line, p.message),
            wit(),
        );
        return;
    }
    let (tip_id, tip) = node.tip().await;
    // ---- tip among the allowed blocks
    let allowed = tip == case.mark.tip || h.b.store.has(&tip) && (h.b.store.is_ancestor(&tip, &case.mark.tip) || case.mark.known.contains(&tip) || case.in_progress.contains(&tip));
    if !allowed {
        rep.violation(
            if tip == [0; 32] { "C12|clause=restart-tip-not-allowed|tip=none" } else { "C12|clause=restart-tip-not-allowed|tip=unknown-block" },
            &format!("case '{}': restarted node sits at {} ({}), pre-crash tip was {} ({})", case.label, tip_id, hex::encode(&tip[..4]), case.mark.tip_id, hex::encode(&case.mark.tip[..4])),
            wit(),
        );
        return;
    }
    if tip == case.mark.tip {
        rep.count("restart_tip.same");
    } else if h.b.store.is_ancestor(&tip, &case.mark.tip) {
        rep.count("restart_tip.ancestor");
        rep.max("restart_tip_blocks_lost", case.mark.tip_id - tip_id);
    } else {
        rep.count("restart_tip.other-known-branch");
    }
    // ---- consistency of the rebuilt state, supply
    {
        let chain = node.chain.read().await;
        let findings = check_consistency(&chain, &mut h.b.store, gp);
        rep.count("consistency_checks");
        for f in findings.iter().take(2) {
            rep.violation(&format!("C12|clause=restart-state-inconsistent|{}", f.clause), &format!("case '{}': {}", case.label, f.detail), wit());
        }
        if let (Some(s), Some(want)) = (supply(&chain, gp), case.mark.supply) {
            rep.count("supply_checks");
            if s != want && tip == case.mark.tip {
                rep.violation("C12|clause=restart-supply-differs", &format!("case '{}': supply {} after restart, {} before", case.label, s, want), wit());
            }
        }
        if case.clean {
            // a clean restart reconstructs the same tip and the same in-window spendable outputs
            if tip != case.mark.tip {
                rep.violation(
                    "C12|clause=clean-restart-tip-differs",
                    &format!("case '{}': every storage operation had completed, yet the restarted node sits at {} ({}) instead of {} ({})", case.label, tip_id, hex::encode(&tip[..4]), case.mark.tip_id, hex::encode(&case.mark.tip[..4])),
                    wit(),
                );
                return;
            }
            let u = in_window_utxo(&chain, gp);
            rep.count("clean_restart_utxo_comparisons");
            if u != case.mark.utxo {
                let gone = case.mark.utxo.difference(&u).count();
                let new = u.difference(&case.mark.utxo).count();
                rep.violation("C12|clause=clean-restart-utxo-differs", &format!("case '{}': {} in-window spendable outputs missing and {} extra after a clean restart", case.label, gone, new), wit());
                return;
            }
        }
    }
    // ---- it can continue: one more honest block on its tip
    if tip != [0; 32] && h.b.store.has(&tip) {
        let txs = h.pick_txs(rng, &tip);
        let with_gt = h.pick_gt(rng, &tip);
        let spec = BlockSpec { gap: 2 * h.cfg.params.heartbeat, txs, with_gt, gt_miner: 0 };
        match h.b.extend(rng, &tip, &spec).await {
            Ok(nh) => {
                let bytes = h.b.store.get(&nh).bytes.clone();
                let r = crate::panics::catch_async(node.add_block_direct(&bytes)).await;
                rep.count("continuation_blocks_offered");
                match r {
                    Err(p) => rep.violation(&format!("C12|clause=continuation-panics|{}", p.signature()), &format!("case '{}': adding one more honest block after restart panicked: {}", case.label, p.message), wit()),
                    Ok(_) => {
                        let (_, t2) = node.tip().await;
                        if t2 != nh {
                            rep.violation(
                                "C12|clause=cannot-continue-after-restart",
                                &format!("case '{}': an honest block built on the restarted node's tip {} was not adopted", case.label, tip_id),
                                wit(),
                            );
                        } else {
                            rep.count("continuation_blocks_adopted");
                        }
                    }
                }
            }
            Err(e) => {
                rep.count("continuation_not_built");
                rep.note(&format!("continuation block could not be built by the producer: {}", e));
            }
        }
    }
    rep.nontrivial(&format!("{}|{}", case.label, case.files.len()));
}

async fn one_history(ctx: &Ctx, rng: &mut Rng, gp: u64, len: usize, fork_permille: u64, rep: &mut Report) {
    let mut params = Params::with_gp(gp);
    params.prune_after = 8;
    let mut cfg = HistoryCfg::basic(params);
    cfg.fork_permille = fork_permille;
    cfg.txs = (1, 3);
    let mut h = History::new(cfg).await;
    rep.count("histories");
    let f0 = h.replica.io.files();
    h.replica.io.set_journal(true);
    let mut marks: Vec<Mark> = vec![];
    let mut known: BTreeSet<Hash> = BTreeSet::new();
    known.insert(h.b.genesis);
    let mark_of = |h: &History, known: &BTreeSet<Hash>| {
        let ops = h.replica.io.journal_len();
        let known = known.clone();
        async move {
            let chain = h.replica.chain.read().await;
            Mark { ops, tip: chain.get_latest_block_hash(), tip_id: chain.get_latest_block_id(), known, utxo: in_window_utxo(&chain, h.cfg.params.gp), supply: supply(&chain, h.cfg.params.gp) }
        }
    };
    marks.push(mark_of(&h, &known).await);
    let mut delivered: Vec<(usize, Hash)> = vec![];
    for _ in 0..len {
        let before_ops = h.replica.io.journal_len();
        match h.step(rng).await {
            Ok(info) => {
                known.insert(info.hash);
                delivered.push((before_ops, info.hash));
                if info.reorg {
                    rep.count("history_reorgs");
                }
                marks.push(mark_of(&h, &known).await);
            }
            Err(e) => {
                rep.count("history_stopped_early");
                rep.note(&format!("history stopped: {}", e));
                break;
            }
        }
    }
    let journal: Vec<JournalOp> = h.replica.io.lock().journal.clone();
    rep.add("journal_ops", journal.len() as u64);
    rep.add("journal_ops.remove", journal.iter().filter(|o| o.kind == JournalKind::Remove).count() as u64);
    rep.add("history_blocks", delivered.len() as u64);
    rep.add("history_forks", h.forks_started);
    rep.max("history_tip_id", marks.last().map(|m| m.tip_id).unwrap_or(0));
    let keys: BTreeSet<String> = journal.iter().map(|o| o.key.split('/').take(3).collect::<Vec<_>>().join("/")).collect();
    rep.note(&format!("journal touches: {:?}", keys));
    let witness = json!({"kind": "journal-prefix", "gp": gp, "len": len, "fork_permille": fork_permille, "seed": ctx.seed, "shard": ctx.shard});
    // state of A at journal position k: the last mark whose ops <= k
    let mark_at = |k: usize| -> &Mark { marks.iter().rev().find(|m| m.ops <= k).unwrap() };
    let mut files = f0.clone();
    // budget: every k gets complete + absent; torn variants for a sample of the write ops
    let torn_every = if ctx.thorough { 1 } else { 3 };
    for k in 0..=journal.len() {
        // --- all of ops[0..k] complete
        let m = mark_at(k);
        let clean = marks.iter().any(|mm| mm.ops == k);
        let in_progress: Vec<Hash> = delivered.iter().filter(|(start, _)| *start <= k && m.ops <= *start).map(|(_, h)| *h).collect();
        boot_and_judge(&mut h, Case { files: files.clone(), mark: m, in_progress: in_progress.clone(), clean, label: format!("ops[0..{}] complete{}", k, if clean { " (clean)" } else { "" }) }, rng, rep, &witness).await;
        if k == journal.len() {
            break;
        }
        let op = journal[k].clone();
        // --- op k torn (writes only): the file exists with a prefix of its content
        if op.kind == JournalKind::Write && (k % torn_every == 0) {
            for cut in cuts(&op.data) {
                let mut f = files.clone();
                apply_op(&mut f, &op, Some(&op.data[..cut]));
                rep.count("torn_variants");
                let mk = mark_at(k);
                boot_and_judge(&mut h, Case { files: f, mark: mk, in_progress: in_progress.clone(), clean: false, label: format!("op {} ({:?} {}) torn at byte {} of {}", k, op.kind, op.key.rsplit('/').next().unwrap_or(""), cut, op.data.len()) }, rng, rep, &witness).await;
            }
        }
        apply_op(&mut files, &op, None);
    }
}

pub async fn run(ctx: &Ctx, rep: &mut Report) {
    let mut rng = ctx.rng();
    let plans: Vec<(u64, usize, u64)> = vec![(10, 34, 150), (40, 16, 250), (10, 30, 0), (12, 40, 200), (40, 24, 0), (10, 36, 300)];
    let n = ctx.scale(8, 64);
    for i in 0..n {
        if !ctx.mine(i) {
            continue;
        }
        let (gp, len, forks) = plans[(i as usize) % plans.len()];
        one_history(ctx, &mut rng, gp, len, forks, rep).await;
    }
    let _ = snapshot;
}
