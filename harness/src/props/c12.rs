//! C12 — restart rebuilds the same ledger; a crash at any storage step is survivable.
//! Node A (the real Blockchain::add_block over the journaling in-memory I/O) lives through a
//! generated history with forks, pruning and (short windows) rebroadcast. For every prefix of the
//! journal of storage operations it produced — the last write complete, absent or torn at each
//! byte-class boundary — the file map is materialised and node B boots from it through the real
//! ConsensusThread::on_init. Oracles on B: no panic, tip among the allowed blocks, index / utxo
//! consistency, supply, and it accepts one more honest block.
use std::collections::{BTreeMap, BTreeSet};

use serde_json::json;

use crate::chain::BlockSpec;
use crate::history::{History, HistoryCfg};
use crate::io::{JournalKind, JournalOp, MemIo, BLOCK_DIR};
use crate::monitors::{check_consistency, snapshot, supply};
use crate::node::Node;
use crate::props::Ctx;
use crate::report::Report;
use crate::rng::Rng;
use crate::world::*;

/// what A looked like right after journal op `upto` (exclusive) had been issued
#[derive(Clone)]
struct Mark {
    /// number of journal ops issued when the step completed
    ops: usize,
    tip: Hash,
    tip_id: u64,
    /// every block hash delivered to A so far
    known: BTreeSet<Hash>,
    /// in-window spendable utxo keys of A and its supply
    utxo: BTreeSet<[u8; 59]>,
    supply: Option<u128>,
}

fn apply_op(files: &mut BTreeMap<String, Vec<u8>>, op: &JournalOp, data: Option<&[u8]>) {
    match op.kind {
        JournalKind::Write => {
            files.insert(op.key.clone(), data.unwrap_or(&op.data).to_vec());
        }
        JournalKind::Append => {
            files.entry(op.key.clone()).or_default().extend_from_slice(data.unwrap_or(&op.data));
        }
        JournalKind::Remove => {
            files.remove(&op.key);
        }
    }
}

/// byte-class boundaries of a block file: inside the length prefix of the file, inside and around
/// the end of the 389-byte header, at every field boundary (and inside the last field) of the
/// 16-byte length prefix of the first and of the last transaction, in and after the first
/// transaction, one byte short
fn cuts(data: &[u8]) -> Vec<usize> {
    const HEADER: usize = saito_core::core::consensus::block::BLOCK_HEADER_SIZE;
    let mut v = vec![0usize, 3, 4, 300, 301, 302, 317, HEADER - 1, HEADER, HEADER + 1];
    let prefix = |v: &mut Vec<usize>, at: usize| v.extend([at + 2, at + 4, at + 8, at + 12, at + 13, at + 15, at + 16, at + 17]);
    prefix(&mut v, HEADER);
    // the wallet file: inside / at the end of the private key, inside the public key
    v.extend([1usize, 31, 32, 33, 64]);
    if data.len() > HEADER + 40 {
        v.push(HEADER + (data.len() - HEADER) / 3);
        v.push(HEADER + 2 * (data.len() - HEADER) / 3);
        if let Ok(b) = saito_core::core::consensus::block::Block::deserialize_from_net(data) {
            let mut at = HEADER;
            for (i, tx) in b.transactions.iter().enumerate() {
                if i > 0 && i + 1 == b.transactions.len() {
                    prefix(&mut v, at);
                }
                at += tx.serialize_for_net().len();
            }
        }
    }
    if !data.is_empty() {
        v.push(data.len() - 1);
    }
    v.retain(|c| *c < data.len());
    v.sort();
    v.dedup();
    v
}

fn in_window_utxo(chain: &saito_core::core::consensus::blockchain::Blockchain, gp: u64) -> BTreeSet<[u8; 59]> {
    let tip = chain.get_latest_block_id();
    chain
        .utxoset
        .iter()
        .filter(|(_, v)| **v)
        .filter_map(|(k, _)| {
            let s = saito_core::core::consensus::slip::Slip::parse_slip_from_utxokey(k).ok()?;
            if s.block_id >= tip.saturating_sub(gp) && s.amount > 0 {
                Some(*k)
            } else {
                None
            }
        })
        .collect()
}

struct Case<'a> {
    files: BTreeMap<String, Vec<u8>>,
    /// the mark that describes A at the crash point (what A knew / where its tip was)
    mark: &'a Mark,
    /// blocks whose delivery was in progress when the crash happened (also allowed as tip)
    in_progress: Vec<Hash>,
    clean: bool,
    label: String,
    /// invalid siblings a peer handed to A (filed as side blocks, never valid tips)
    invalid: &'a BTreeMap<Hash, u64>,
}

/// (lowest block id among the block files, ids of the invalid side blocks among them that a start-up
/// winds without utxo validation: until a genesis period of blocks is loaded above the lowest file,
/// unless block 1 is there, `wind_chain` validates with `validate_against_utxo = false`)
fn unvalidated_zone(h: &History, case: &Case<'_>) -> (u64, Vec<u64>) {
    let mut lo = u64::MAX;
    let mut inv = vec![];
    for k in case.files.keys().filter(|k| k.starts_with(BLOCK_DIR) && k.ends_with(".sai")) {
        let name = &k[BLOCK_DIR.len()..k.len() - 4];
        let hash: Hash = match name.split('-').nth(1).and_then(|x| hex::decode(x).ok()).and_then(|v| v.try_into().ok()) {
            Some(x) => x,
            None => continue,
        };
        if let Some(id) = case.invalid.get(&hash) {
            inv.push(*id);
            lo = lo.min(*id);
        } else if h.b.store.has(&hash) {
            lo = lo.min(h.b.store.get(&hash).id);
        }
    }
    let gp = h.cfg.params.gp;
    let zone: Vec<u64> = if lo <= 1 { vec![] } else { inv.into_iter().filter(|id| *id <= lo + gp).collect() };
    (lo, zone)
}

async fn boot_and_judge(h: &mut History, case: Case<'_>, rng: &mut Rng, rep: &mut Report, witness: &serde_json::Value) {
    let gp = h.cfg.params.gp;
    rep.eval();
    rep.count("boots");
    rep.count(if case.clean { "boots.clean-shutdown" } else { "boots.crash" });
    let key = h.b.actors[h.cfg.replica_key].clone();
    let replica_key = h.cfg.replica_key;
    let io = MemIo::from_files(case.files.clone());
    let mut node = Node::new(&key, &h.cfg.params, io, VClock::new(T0 + 7_200_000), vec![], "http://b.example:1");
    let wit = || {
        let mut w = witness.clone();
        w["case"] = json!(case.label);
        w["files"] = json!(case.files.iter().map(|(k, v)| (k.clone(), hex::encode(v))).collect::<Vec<_>>());
        w["replica_key"] = json!(replica_key);
        w
    };
    // saito-rust's main loads the wallet file before the threads start
    {
        use saito_core::core::consensus::wallet::Wallet;
        let wallet = node.wallet.clone();
        let io = node.io.boxed();
        let r = crate::panics::catch_async(async move {
            let mut w = wallet.write().await;
            Wallet::load(&mut w, io.as_ref()).await;
        })
        .await;
        if let Err(p) = r {
            rep.violation(
                &format!("C12|clause=restart-panics|stage=wallet-load|{}", p.signature()),
                &format!("loading the wallet file of case '{}' panicked at {}:{}: {}", case.label, p.rel_file(), p.line, p.message),
                wit(),
            );
            return;
        }
    }
    let (lowest_file_id, zone) = unvalidated_zone(h, &case);
    if !zone.is_empty() {
        rep.count("boots_with_an_invalid_side_block_in_the_unvalidated_first_genesis_period");
    }
    if let Err(p) = node.init().await {
        let cause = if !zone.is_empty() && p.message.contains("invalid total supply") { "|cause=invalid-side-block-wound-without-utxo-validation-in-the-first-genesis-period-of-files" } else { "" };
        rep.violation(
            &format!("C12|clause=restart-panics|{}{}", p.signature(), cause),
            &format!("boot from the files of case '{}' (lowest block file {}, invalid side blocks on disk within a genesis period of it: {:?}) panicked at {}:{}: {}", case.label, lowest_file_id, zone, p.rel_file(), p.line, p.message),
            wit(),
        );
        return;
    }
    let (tip_id, tip) = node.tip().await;
    // ---- the mining thread learns the tip only from the event the start-up sends it; without it the
    // node cannot produce the golden ticket the next blocks may need
    if tip != [0; 32] {
        rep.count("miner_target_checks");
        if node.miner_target.map(|(_, h)| h) != Some(tip) {
            rep.violation(
                if node.miner_target.is_none() { "C12|clause=miner-not-told-the-tip-after-restart|told=nothing" } else { "C12|clause=miner-not-told-the-tip-after-restart|told=another-block" },
                &format!("case '{}': the restarted node sits at {} ({}) but the last block its mining thread was told to mine on is {:?}: it cannot produce a golden ticket for its tip and cannot extend the chain once one is needed", case.label, tip_id, hex::encode(&tip[..4]), node.miner_target.map(|(i, h)| (i, hex::encode(&h[..4])))),
                wit(),
            );
            return;
        }
    }
    // ---- tip among the allowed blocks
    let allowed = tip == case.mark.tip || h.b.store.has(&tip) && (h.b.store.is_ancestor(&tip, &case.mark.tip) || case.mark.known.contains(&tip) || case.in_progress.contains(&tip));
    if !allowed {
        // an invalid side block as tip: either the loader took it as its parentless first block (the
        // oldest file at the prune horizon; the real chain is held but, arriving after it, not
        // adopted), or it was put on top of its parent, which only validation would have prevented
        let sig = if tip == [0; 32] {
            "C12|clause=restart-tip-not-allowed|tip=none".to_string()
        } else if case.invalid.contains_key(&tip) {
            let chain = node.chain.read().await;
            let parent = chain.blocks.get(&tip).map(|b| b.previous_block_hash).unwrap_or([0; 32]);
            let rooted = !chain.blocks.contains_key(&parent);
            let main_held = chain.blocks.contains_key(&case.mark.tip);
            rep.count(if rooted { "restarts_rooted_on_an_invalid_side_block" } else { "restarts_with_invalid_side_block_on_its_parent" });
            format!("C12|clause=restart-tip-not-allowed|tip=invalid-side-block|{}", if rooted && main_held { "cause=restarted-on-abandoned-branch-main-chain-held-but-not-adopted" } else if rooted { "taken-as-parentless-first-block" } else if zone.contains(&tip_id) { "cause=wound-without-utxo-validation-in-the-first-genesis-period-of-files" } else { "wound-on-its-parent-without-validation" })
        } else {
            "C12|clause=restart-tip-not-allowed|tip=unknown-block".to_string()
        };
        rep.violation(
            &sig,
            &format!("case '{}': restarted node sits at {} ({}), pre-crash tip was {} ({})", case.label, tip_id, hex::encode(&tip[..4]), case.mark.tip_id, hex::encode(&case.mark.tip[..4])),
            wit(),
        );
        return;
    }
    if tip == case.mark.tip {
        rep.count("restart_tip.same");
    } else if h.b.store.is_ancestor(&tip, &case.mark.tip) {
        rep.count("restart_tip.ancestor");
        rep.max("restart_tip_blocks_lost", case.mark.tip_id - tip_id);
    } else {
        rep.count("restart_tip.other-known-branch");
    }
    // ---- consistency of the rebuilt state, supply
    {
        let chain = node.chain.read().await;
        let findings = check_consistency(&chain, &mut h.b.store, gp);
        rep.count("consistency_checks");
        // the restarted node sits on a branch the running node had abandoned, although it holds the
        // block the running node was on: the first file the loader meets belongs to a dead fork at
        // the prune horizon and every later block goes down add_block's out-of-order branch
        let abandoned = tip != case.mark.tip && !h.b.store.is_ancestor(&tip, &case.mark.tip) && chain.blocks.contains_key(&case.mark.tip);
        if abandoned {
            rep.count("restarts_on_abandoned_branch");
        }
        for f in findings.iter().take(2) {
            if f.clause == "utxo-extra-outside-window-only" {
                // a node restarted from files that begin after the pruned part of the chain keeps
                // entries the rebroadcast section would have consumed; they are older than the
                // window and cannot be spent, and the property speaks of in-window outputs
                rep.count("restarts_with_stale_entries_outside_the_window");
                continue;
            }
            rep.violation(
                &format!("C12|clause=restart-state-inconsistent|{}{}", f.clause, if abandoned { "|cause=restarted-on-abandoned-branch-main-chain-held-but-not-adopted" } else { "" }),
                &format!("case '{}': restarted at {} ({}), running node was at {} ({}): {}", case.label, tip_id, hex::encode(&tip[..3]), case.mark.tip_id, hex::encode(&case.mark.tip[..3]), f.detail),
                wit(),
            );
        }
        if let (Some(s), Some(want)) = (supply(&chain, gp), case.mark.supply) {
            rep.count("supply_checks");
            if s != want && tip == case.mark.tip {
                rep.violation("C12|clause=restart-supply-differs", &format!("case '{}': supply {} after restart, {} before", case.label, s, want), wit());
            }
        }
        if case.clean {
            // a clean restart reconstructs the same tip and the same in-window spendable outputs
            if tip != case.mark.tip {
                // two branches of equal length: A kept the one it saw first, B the one whose file
                // name (timestamp-hash) sorts first
                let tie = tip_id == case.mark.tip_id && h.b.store.has(&tip) && h.b.store.chain_valid(&tip);
                if !tie {
                    // diagnostics: the files B saw (in listing order) and what it made of them
                    let mut files: Vec<String> = vec![];
                    for (k, v) in case.files.iter().filter(|(k, _)| k.starts_with(BLOCK_DIR)) {
                        let d = match saito_core::core::consensus::block::Block::deserialize_from_net(v) {
                            Ok(mut b) => {
                                let _ = b.generate();
                                format!("{}:id{}:{}<-{}:{}", &k[BLOCK_DIR.len()..BLOCK_DIR.len() + 13], b.id, hex::encode(&b.hash[..2]), hex::encode(&b.previous_block_hash[..2]), if chain.blocks.contains_key(&b.hash) { if chain.blocks[&b.hash].in_longest_chain { "LC" } else { "held" } } else { "absent" })
                            }
                            Err(_) => format!("{}:undecodable", k),
                        };
                        files.push(d);
                    }
                    rep.note(&format!("clean restart differs; A's chain: {:?}; files: {:?}", h.b.store.ancestors(&case.mark.tip).iter().map(|x| hex::encode(&x[..2])).collect::<Vec<_>>(), files));
                }
                // B holds A's tip block and every ancestor of it, validly stored, and still prefers a
                // shorter branch: the fork choice (longer AND at least as much burn fee, decided
                // when a block arrives) depends on the order of arrival, and a restart replays the
                // files in timestamp order
                // (either way round: B may also end on a longer branch that A held but did not prefer)
                if tie && !file_sorts_first(h, &tip, &case.mark.tip) {
                    // observation only: which of two equal-length tips a restart ends on is not
                    // simply the one whose file is listed first (failed reorganisation attempts on
                    // the way, e.g. through an invalid sibling, change it)
                    rep.count("ties_where_the_restart_kept_the_tip_listed_later");
                }
                let holds_all = chain.blocks.contains_key(&case.mark.tip) && h.b.store.ancestors(&case.mark.tip).iter().rev().take(4).all(|x| chain.blocks.contains_key(x)) && case.mark.known.contains(&tip) && h.b.store.chain_valid(&tip);
                rep.violation(
                    if tie {
                        "C12|clause=clean-restart-tip-differs|cause=equal-length-branches-load-order"
                    } else if holds_all {
                        "C12|clause=clean-restart-tip-differs|cause=shorter-branch-kept-fork-choice-depends-on-arrival-order"
                    } else {
                        "C12|clause=clean-restart-tip-differs"
                    },
                    &format!("case '{}': every storage operation had completed, yet the restarted node sits at {} ({}) instead of {} ({})", case.label, tip_id, hex::encode(&tip[..4]), case.mark.tip_id, hex::encode(&case.mark.tip[..4])),
                    wit(),
                );
                return;
            }
            let u = in_window_utxo(&chain, gp);
            rep.count("clean_restart_utxo_comparisons");
            if u != case.mark.utxo {
                let gone = case.mark.utxo.difference(&u).count();
                let new = u.difference(&case.mark.utxo).count();
                rep.violation("C12|clause=clean-restart-utxo-differs", &format!("case '{}': {} in-window spendable outputs missing and {} extra after a clean restart", case.label, gone, new), wit());
                return;
            }
        }
    }
    // ---- it can continue: one more honest block on its tip
    if tip != [0; 32] && h.b.store.has(&tip) {
        let txs = h.pick_txs(rng, &tip);
        let with_gt = h.pick_gt(rng, &tip);
        let spec = BlockSpec { gap: 2 * h.cfg.params.heartbeat, txs, with_gt, gt_miner: 0 };
        match h.b.extend(rng, &tip, &spec).await {
            Ok(nh) => {
                let bytes = h.b.store.get(&nh).bytes.clone();
                let r = deliver(&mut node, &bytes).await;
                rep.count("continuation_blocks_offered");
                match r {
                    Err(p) => rep.violation(&format!("C12|clause=continuation-panics|{}", p.signature()), &format!("case '{}': adding one more honest block after restart panicked: {}", case.label, p.message), wit()),
                    Ok(_) => {
                        let (_, t2) = node.tip().await;
                        if t2 != nh {
                            rep.violation(
                                "C12|clause=cannot-continue-after-restart",
                                &format!("case '{}': an honest block built on the restarted node's tip {} was not adopted", case.label, tip_id),
                                wit(),
                            );
                        } else {
                            rep.count("continuation_blocks_adopted");
                        }
                    }
                }
            }
            Err(e) => {
                rep.count("continuation_not_built");
                rep.note(&format!("continuation block could not be built by the producer: {}", e));
            }
        }
    }
    rep.nontrivial(&format!("{}|{}", case.label, case.files.len()));
}

/// block files are named <timestamp>-<hash>.sai and loaded in name order: does the file of `a` come
/// before the file of `b`?
fn file_sorts_first(h: &History, a: &Hash, b: &Hash) -> bool {
    let key = |x: &Hash| format!("{}-{}", h.b.store.get(x).ts, hex::encode(x));
    h.b.store.has(a) && h.b.store.has(b) && key(a) < key(b)
}

/// hand a block to the node the way the verification thread does
async fn deliver(node: &mut Node, bytes: &[u8]) -> Result<bool, crate::panics::PanicInfo> {
    use saito_core::core::consensus::block::Block;
    use saito_core::core::consensus_thread::ConsensusEvent;
    use saito_core::core::process::process_event::ProcessEvent;
    let mut block = match Block::deserialize_from_net(bytes) {
        Ok(b) => b,
        Err(_) => return Ok(false),
    };
    if block.generate().is_err() {
        return Ok(false);
    }
    let r = crate::panics::catch_async(node.consensus.process_event(ConsensusEvent::BlockFetched { peer_index: 1, block })).await;
    node.drain_side_channels();
    while node.rx_router.try_recv().is_ok() {}
    r.map(|_| true)
}

async fn mark_of(h: &History, a: &Node, known: &BTreeSet<Hash>) -> Mark {
    let ops = a.io.journal_len();
    let chain = a.chain.read().await;
    Mark { ops, tip: chain.get_latest_block_hash(), tip_id: chain.get_latest_block_id(), known: known.clone(), utxo: in_window_utxo(&chain, h.cfg.params.gp), supply: supply(&chain, h.cfg.params.gp) }
}

/// restart in the middle of a history, let the restarted node live through the rest of it, then
/// restart once more: what the first start-up did to the files (its clean-up of "unreferenced"
/// block files) must not cost the second one its chain
async fn continuation(h: &mut History, files_at_k: BTreeMap<String, Vec<u8>>, rest: &[Hash], label: &str, rep: &mut Report, witness: &serde_json::Value) {
    use saito_core::core::consensus::wallet::Wallet;
    let key = h.b.actors[h.cfg.replica_key].clone();
    let mut b_node = Node::new(&key, &h.cfg.params, MemIo::from_files(files_at_k), VClock::new(T0 + 7_200_000), vec![], "http://b.example:1");
    {
        let wallet = b_node.wallet.clone();
        let io = b_node.io.boxed();
        if crate::panics::catch_async(async move {
            let mut w = wallet.write().await;
            Wallet::load(&mut w, io.as_ref()).await;
        })
        .await
        .is_err()
        {
            return;
        }
    }
    if b_node.init().await.is_err() {
        return;
    }
    for hsh in rest {
        let bytes = h.b.store.get(hsh).bytes.clone();
        if deliver(&mut b_node, &bytes).await.is_err() {
            rep.count("continuation_restart_delivery_panicked");
            return;
        }
    }
    let (b_id, b_tip) = b_node.tip().await;
    let files = b_node.io.files();
    let mut c_node = Node::new(&key, &h.cfg.params, MemIo::from_files(files.clone()), VClock::new(T0 + 9_000_000), vec![], "http://c.example:1");
    {
        let wallet = c_node.wallet.clone();
        let io = c_node.io.boxed();
        let _ = crate::panics::catch_async(async move {
            let mut w = wallet.write().await;
            Wallet::load(&mut w, io.as_ref()).await;
        })
        .await;
    }
    rep.eval();
    rep.count("second_restarts");
    let wit = || {
        let mut w = witness.clone();
        w["case"] = json!(format!("{} / second restart", label));
        w["files"] = json!(files.iter().map(|(k, v)| (k.clone(), hex::encode(v))).collect::<Vec<_>>());
        w["replica_key"] = json!(h.cfg.replica_key);
        w
    };
    if let Err(p) = c_node.init().await {
        rep.violation(&format!("C12|clause=restart-panics|stage=second-restart|{}", p.signature()), &format!("{}: the second start-up panicked: {}", label, p.message), wit());
        return;
    }
    let (c_id, c_tip) = c_node.tip().await;
    if c_tip == b_tip {
        rep.count("second_restarts_same_tip");
        return;
    }
    let (holds_tip, holds_recent) = {
        let chain = c_node.chain.read().await;
        (chain.blocks.contains_key(&b_tip), h.b.store.has(&b_tip) && h.b.store.ancestors(&b_tip).iter().rev().take(4).all(|x| chain.blocks.contains_key(x)))
    };
    let sig = if c_id == b_id && h.b.store.has(&c_tip) && h.b.store.chain_valid(&c_tip) {
        "C12|clause=clean-restart-tip-differs|cause=equal-length-branches-load-order"
    } else if holds_tip && holds_recent && h.b.store.has(&c_tip) && h.b.store.chain_valid(&c_tip) {
        "C12|clause=clean-restart-tip-differs|cause=shorter-branch-kept-fork-choice-depends-on-arrival-order"
    } else {
        "C12|clause=second-restart-loses-the-chain"
    };
    rep.violation(
        sig,
        &format!("{}: the node restarted, lived through {} more blocks and sat at {} ({}); after a second clean restart it sits at {} ({}) (holds the old tip: {}, its last ancestors: {})", label, rest.len(), b_id, hex::encode(&b_tip[..3]), c_id, hex::encode(&c_tip[..3]), holds_tip, holds_recent),
        wit(),
    );
}

/// restart at a point where the node knows a side block, then let that side branch win (honest
/// blocks built on it until it overtakes), then restart once more: the second start-up must come
/// up on the branch the node reorganised to. What the first start-up did to the files of blocks
/// off its longest chain decides whether it can.
#[allow(clippy::too_many_arguments)]
async fn side_branch_wins_after_restart(h: &mut History, rng: &mut Rng, files_at_k: BTreeMap<String, Vec<u8>>, mark: &Mark, label: &str, rep: &mut Report, witness: &serde_json::Value) {
    use saito_core::core::consensus::wallet::Wallet;
    let lc: BTreeSet<Hash> = h.b.store.ancestors(&mark.tip).into_iter().collect();
    // a valid side block whose parent is on the longest chain, at most three below the tip
    let side = mark.known.iter().find(|x| !lc.contains(*x) && h.b.store.has(x) && h.b.store.chain_valid(x) && lc.contains(&h.b.store.get(x).prev) && h.b.store.get(x).id + 3 >= mark.tip_id && h.b.store.get(x).id <= mark.tip_id).cloned();
    let side = match side {
        Some(s) => s,
        None => return,
    };
    rep.count("side_branch_restarts_attempted");
    let key = h.b.actors[h.cfg.replica_key].clone();
    let mut b_node = Node::new(&key, &h.cfg.params, MemIo::from_files(files_at_k), VClock::new(T0 + 7_200_000), vec![], "http://b.example:1");
    {
        let wallet = b_node.wallet.clone();
        let io = b_node.io.boxed();
        if crate::panics::catch_async(async move {
            let mut w = wallet.write().await;
            Wallet::load(&mut w, io.as_ref()).await;
        })
        .await
        .is_err()
        {
            return;
        }
    }
    if b_node.init().await.is_err() || b_node.tip().await.1 != mark.tip {
        // (restarts that do not come up on the running node's tip are judged elsewhere)
        return;
    }
    // honest blocks on the side block until the branch is two ahead
    let mut cur = side;
    let need = mark.tip_id + 2 - h.b.store.get(&side).id;
    for _ in 0..need {
        let txs = h.pick_txs(rng, &cur);
        let with_gt = h.pick_gt(rng, &cur);
        let spec = BlockSpec { gap: 2 * h.cfg.params.heartbeat, txs, with_gt, gt_miner: 0 };
        match h.b.extend(rng, &cur, &spec).await {
            Ok(nh) => {
                let bytes = h.b.store.get(&nh).bytes.clone();
                if deliver(&mut b_node, &bytes).await.is_err() {
                    return;
                }
                cur = nh;
            }
            Err(_) => return,
        }
    }
    let (b_id, b_tip) = b_node.tip().await;
    if b_tip != cur {
        rep.count("side_branch_restarts_branch_not_adopted");
        return;
    }
    rep.count("side_branch_restarts_reorganised");
    let files = b_node.io.files();
    let mut c_node = Node::new(&key, &h.cfg.params, MemIo::from_files(files.clone()), VClock::new(T0 + 9_000_000), vec![], "http://c.example:1");
    {
        let wallet = c_node.wallet.clone();
        let io = c_node.io.boxed();
        let _ = crate::panics::catch_async(async move {
            let mut w = wallet.write().await;
            Wallet::load(&mut w, io.as_ref()).await;
        })
        .await;
    }
    rep.eval();
    let wit = || {
        let mut w = witness.clone();
        w["case"] = json!(format!("{} / side branch wins / second restart", label));
        w["files"] = json!(files.iter().map(|(k, v)| (k.clone(), hex::encode(v))).collect::<Vec<_>>());
        w["replica_key"] = json!(h.cfg.replica_key);
        w
    };
    if let Err(p) = c_node.init().await {
        rep.violation(&format!("C12|clause=restart-panics|stage=second-restart|{}", p.signature()), &format!("{}: the second start-up panicked: {}", label, p.message), wit());
        return;
    }
    let (c_id, c_tip) = c_node.tip().await;
    if c_tip == b_tip {
        rep.count("side_branch_second_restarts_same_tip");
        return;
    }
    let holds_tip = { c_node.chain.read().await.blocks.contains_key(&b_tip) };
    let has_side_file = files.keys().any(|k| k.contains(&hex::encode(side)));
    rep.violation(
        if has_side_file { "C12|clause=second-restart-loses-the-chain|after=side-branch-won" } else { "C12|clause=second-restart-loses-the-chain|after=side-branch-won|side-block-file-gone" },
        &format!("{}: the node restarted on {} knowing side block {} ({}), that branch then won and the node sat at {} ({}); after a second clean restart it sits at {} ({}) (holds the new tip: {}; the side block's file is {} in its block directory)", label, mark.tip_id, h.b.store.get(&side).id, hex::encode(&side[..3]), b_id, hex::encode(&b_tip[..3]), c_id, hex::encode(&c_tip[..3]), holds_tip, if has_side_file { "still" } else { "no longer" }),
        wit(),
    );
}

async fn one_history(ctx: &Ctx, rng: &mut Rng, gp: u64, len: usize, fork_permille: u64, rep: &mut Report) {
    let mut params = Params::with_gp(gp);
    params.prune_after = 8;
    let mut cfg = HistoryCfg::basic(params);
    cfg.fork_permille = fork_permille;
    cfg.txs = (1, 3);
    let mut h = History::new(cfg).await;
    rep.count("histories");
    // node A: the consensus thread's own path (add_blocks_from_mempool: block files, pruning,
    // wallet file) over a journaling in-memory I/O
    let key = h.b.actors[h.cfg.replica_key].clone();
    let mut a = Node::new(&key, &h.cfg.params, MemIo::new(), VClock::new(T0 + 3_600_000), vec![], "http://a.example:1");
    if a.init().await.is_err() {
        rep.inconclusive("node A init panicked");
        return;
    }
    let gbytes = h.b.store.get(&h.b.genesis).bytes.clone();
    if !matches!(deliver(&mut a, &gbytes).await, Ok(true)) {
        rep.inconclusive("node A refused the genesis block");
        return;
    }
    let f0 = a.io.files();
    a.io.set_journal(true);
    let mut marks: Vec<Mark> = vec![];
    let mut known: BTreeSet<Hash> = BTreeSet::new();
    known.insert(h.b.genesis);
    marks.push(mark_of(&h, &a, &known).await);
    let mut delivered: Vec<(usize, Hash)> = vec![];
    let mut invalid: BTreeMap<Hash, u64> = BTreeMap::new();
    for _ in 0..len {
        match h.step(rng).await {
            Ok(info) => {
                let before_ops = a.io.journal_len();
                let bytes = h.b.store.get(&info.hash).bytes.clone();
                let before_tip = a.tip().await;
                if !matches!(deliver(&mut a, &bytes).await, Ok(true)) {
                    rep.inconclusive("node A panicked on an honest block");
                    return;
                }
                let after_tip = a.tip().await;
                if after_tip != before_tip && !h.b.store.is_ancestor(&before_tip.1, &after_tip.1) {
                    rep.count("history_reorgs");
                }
                known.insert(info.hash);
                delivered.push((before_ops, info.hash));
                marks.push(mark_of(&h, &a, &known).await);
                // now and then a peer also sends a sibling of the new tip that its creator signed but
                // that does not validate (difficulty or treasury off), with a timestamp just before
                // or after the tip's: A files it as a side block without validating it, and the
                // file is read back at every restart
                if after_tip.1 == info.hash && rng.chance(1, 6) {
                    let mut blk = h.b.store.get(&info.hash).block.clone();
                    let creator = h.b.actors[0].clone();
                    if blk.creator == creator.pk {
                        let before = rng.chance(2, 3);
                        blk.timestamp = if before { blk.timestamp - 1 } else { blk.timestamp + 1 };
                        if rng.chance(1, 2) {
                            blk.difficulty += 3;
                        } else {
                            blk.treasury += 1_000;
                        }
                        crate::props::c04::reseal(&mut blk, &creator, false);
                        let sib = block_bytes(&blk);
                        invalid.insert(blk.hash, blk.id);
                        if !matches!(deliver(&mut a, &sib).await, Ok(true)) {
                            rep.inconclusive("node A panicked on an invalid sibling of its tip");
                            return;
                        }
                        if a.tip().await.1 == info.hash {
                            rep.count(if before { "invalid_tip_siblings_filed.timestamp-before-the-tip" } else { "invalid_tip_siblings_filed.timestamp-after-the-tip" });
                            marks.push(mark_of(&h, &a, &known).await);
                        } else {
                            rep.count("invalid_tip_sibling_changed_the_running_tip");
                            rep.note("an invalid sibling moved node A's tip: history abandoned");
                            return;
                        }
                    }
                }
            }
            Err(e) => {
                rep.count("history_stopped_early");
                rep.note(&format!("history stopped: {}", e));
                break;
            }
        }
    }
    let journal: Vec<JournalOp> = a.io.lock().journal.clone();
    rep.add("journal_ops", journal.len() as u64);
    rep.add("journal_ops.remove", journal.iter().filter(|o| o.kind == JournalKind::Remove).count() as u64);
    rep.add("history_blocks", delivered.len() as u64);
    rep.add("history_forks", h.forks_started);
    rep.max("history_tip_id", marks.last().map(|m| m.tip_id).unwrap_or(0));
    let keys: BTreeSet<String> = journal.iter().map(|o| o.key.split('/').take(3).collect::<Vec<_>>().join("/")).collect();
    rep.note(&format!("journal touches: {:?}; storage model measured from the real handler: write={} listing={} short-wallet={}", keys, if crate::io::io_model().0 { "temporary-file+rename" } else { "truncate-in-place" }, if crate::io::io_model().1 { "skips *.tmp" } else { "lists *.tmp" }, ["panics", "error", "ok"][crate::io::io_model().2 as usize]));
    let witness = json!({"kind": "journal-prefix", "gp": gp, "len": len, "fork_permille": fork_permille, "seed": ctx.seed, "shard": ctx.shard});
    // state of A at journal position k: the last mark whose ops <= k
    let mark_at = |k: usize| -> &Mark { marks.iter().rev().find(|m| m.ops <= k).unwrap() };
    let mut files = f0.clone();
    let clean_ks: Vec<usize> = marks.iter().map(|m| m.ops).collect();
    // every second clean point that leaves at least three blocks to come
    let wanted: Vec<usize> = clean_ks.iter().enumerate().filter(|(i, _)| i % 2 == 1).map(|(_, k)| *k).collect();
    let mut captured: Vec<(usize, BTreeMap<String, Vec<u8>>)> = vec![];
    let mut side_captured: Vec<(usize, BTreeMap<String, Vec<u8>>)> = vec![];
    let side_cap = if ctx.thorough { 12 } else { 5 };
    // budget: every k gets complete + absent; torn variants for a sample of the write ops
    let torn_every = if ctx.thorough { 1 } else { 3 };
    for k in 0..=journal.len() {
        if wanted.contains(&k) && !captured.iter().any(|(kk, _)| *kk == k) {
            captured.push((k, files.clone()));
        }
        if clean_ks.contains(&k) && side_captured.len() < side_cap && !side_captured.iter().any(|(kk, _)| *kk == k) {
            let m = mark_at(k);
            let lc: BTreeSet<Hash> = h.b.store.ancestors(&m.tip).into_iter().collect();
            if m.known.iter().any(|x| !lc.contains(x) && h.b.store.has(x) && lc.contains(&h.b.store.get(x).prev) && h.b.store.get(x).id + 3 >= m.tip_id && h.b.store.get(x).id <= m.tip_id) {
                side_captured.push((k, files.clone()));
            }
        }
        // --- all of ops[0..k] complete
        let m = mark_at(k);
        let clean = marks.iter().any(|mm| mm.ops == k);
        let in_progress: Vec<Hash> = delivered.iter().filter(|(start, _)| *start <= k && m.ops <= *start).map(|(_, h)| *h).collect();
        boot_and_judge(&mut h, Case { files: files.clone(), mark: m, in_progress: in_progress.clone(), clean, label: format!("ops[0..{}] complete{}", k, if clean { " (clean)" } else { "" }), invalid: &invalid }, rng, rep, &witness).await;
        if k == journal.len() {
            break;
        }
        let op = journal[k].clone();
        // --- op k torn (writes only). What a crash in the middle of write_value leaves behind is
        // the measured protocol of the real handler: a prefix under the final name (in place), or
        // a prefix under `<name>.tmp` with the final name untouched (temporary file + rename)
        let (via_rename, _, _) = crate::io::io_model();
        if op.kind == JournalKind::Write && (k % torn_every == 0 || op.key.ends_with("wallet")) {
            let mut all_cuts = cuts(&op.data);
            if via_rename {
                // the temporary file complete, the rename not done yet
                all_cuts.push(op.data.len());
            }
            for cut in all_cuts {
                let mut f = files.clone();
                if via_rename {
                    f.insert(format!("{}{}", op.key, crate::io::TMP_SUFFIX), op.data[..cut].to_vec());
                } else {
                    apply_op(&mut f, &op, Some(&op.data[..cut]));
                }
                rep.count("torn_variants");
                if op.key.ends_with("wallet") {
                    rep.count("torn_variants.wallet");
                }
                let mk = mark_at(k);
                boot_and_judge(&mut h, Case { files: f, mark: mk, in_progress: in_progress.clone(), clean: false, label: format!("op {} ({:?} {}) torn at byte {} of {}", k, op.kind, op.key.rsplit('/').next().unwrap_or(""), cut, op.data.len()), invalid: &invalid }, rng, rep, &witness).await;
            }
        }
        apply_op(&mut files, &op, None);
    }
    // crashes DURING a start-up: the restarted node's own storage operations (it re-saves what it
    // loads and cleans up) are journalled, and the next start-up begins from every prefix of them
    // with the interrupted write torn the way the measured protocol leaves it
    for (k, f) in captured.iter().take(if ctx.thorough { 6 } else { 2 }) {
        let key = h.b.actors[h.cfg.replica_key].clone();
        let io = MemIo::from_files(f.clone());
        io.set_journal(true);
        let mut b_node = Node::new(&key, &h.cfg.params, io, VClock::new(T0 + 7_200_000), vec![], "http://b.example:1");
        if b_node.init().await.is_err() {
            continue;
        }
        let bj: Vec<JournalOp> = b_node.io.lock().journal.clone();
        rep.add("startup_journal_ops", bj.len() as u64);
        let writes: Vec<usize> = bj.iter().enumerate().filter(|(_, o)| o.kind == JournalKind::Write && o.key.starts_with(BLOCK_DIR)).map(|(i, _)| i).collect();
        let mut picks: Vec<usize> = vec![];
        for i in 0..writes.len() {
            if i < 3 || i + 3 >= writes.len() || i % (writes.len() / 4).max(1) == 0 {
                picks.push(writes[i]);
            }
        }
        let (via_rename, _, _) = crate::io::io_model();
        let m = mark_at(*k).clone();
        for j in picks {
            let mut files_j = f.clone();
            for op in &bj[..j] {
                apply_op(&mut files_j, op, None);
            }
            let op = &bj[j];
            let cut = op.data.len() / 2;
            if via_rename {
                files_j.insert(format!("{}{}", op.key, crate::io::TMP_SUFFIX), op.data[..cut].to_vec());
            } else {
                apply_op(&mut files_j, op, Some(&op.data[..cut]));
            }
            rep.count("startup_crash_variants");
            boot_and_judge(&mut h, Case { files: files_j, mark: &m, in_progress: vec![], clean: false, label: format!("restart at ops[0..{}], crash in the start-up's own op {} ({:?} {}) torn at byte {} of {}", k, j, op.kind, op.key.rsplit('/').next().unwrap_or(""), cut, op.data.len()), invalid: &invalid }, rng, rep, &witness).await;
        }
    }
    // restarts at clean points where the node knows a side block that then wins
    let side_points: Vec<(usize, BTreeMap<String, Vec<u8>>)> = side_captured;
    for (k, f) in side_points {
        let m = mark_at(k).clone();
        side_branch_wins_after_restart(&mut h, rng, f, &m, &format!("restart at ops[0..{}]", k), rep, &witness).await;
    }
    for (k, f) in captured {
        let rest: Vec<Hash> = delivered.iter().filter(|(start, _)| *start >= k).map(|(_, x)| *x).collect();
        if rest.len() >= 3 {
            continuation(&mut h, f, &rest, &format!("restart at ops[0..{}], then {} more blocks", k, rest.len()), rep, &witness).await;
        }
    }
}

/// boot from the files of a recorded case and report what the node makes of them
async fn replay(path: &str, rep: &mut Report) {
    let text = std::fs::read_to_string(path).expect("replay file");
    let v: serde_json::Value = serde_json::from_str(&text).expect("replay json");
    let r = &v["replay"];
    let mut files: BTreeMap<String, Vec<u8>> = BTreeMap::new();
    for f in r["files"].as_array().cloned().unwrap_or_default() {
        files.insert(f[0].as_str().unwrap_or("").to_string(), hex::decode(f[1].as_str().unwrap_or("")).unwrap_or_default());
    }
    let params = {
        let mut p = Params::with_gp(r["gp"].as_u64().unwrap_or(10));
        p.prune_after = 8;
        p
    };
    if std::env::var("SVH_DEBUG").is_ok() {
        crate::logsink::install_stderr(if std::env::var("SVH_DEBUG").map(|v| v == "2").unwrap_or(false) { log::LevelFilter::Debug } else { log::LevelFilter::Info });
    }
    let key = actors(8)[r["replica_key"].as_u64().unwrap_or(1) as usize].clone();
    if std::env::var("SVH_DEBUG").is_ok() {
        for (k, v) in files.iter().filter(|(k, _)| k.starts_with(BLOCK_DIR)) {
            match saito_core::core::consensus::block::Block::deserialize_from_net(v) {
                Ok(mut b) => {
                    let _ = b.generate();
                    eprintln!("FILE {} id {} {} <- {}", &k[BLOCK_DIR.len()..], b.id, hex::encode(&b.hash[..3]), hex::encode(&b.previous_block_hash[..3]));
                }
                Err(_) => eprintln!("FILE {} undecodable ({} bytes)", k, v.len()),
            }
        }
    }
    let mut node = Node::new(&key, &params, MemIo::from_files(files), VClock::new(T0 + 7_200_000), vec![], "http://b.example:1");
    rep.eval();
    {
        use saito_core::core::consensus::wallet::Wallet;
        let wallet = node.wallet.clone();
        let io = node.io.boxed();
        if let Err(p) = crate::panics::catch_async(async move {
            let mut w = wallet.write().await;
            Wallet::load(&mut w, io.as_ref()).await;
        })
        .await
        {
            rep.violation(&format!("C12|clause=restart-panics|stage=wallet-load|{}", p.signature()), &format!("replayed: {}", p.message), r.clone());
            return;
        }
    }
    if let Err(p) = node.init().await {
        rep.violation(&format!("C12|clause=restart-panics|{}", p.signature()), &format!("replayed: {}", p.message), r.clone());
        return;
    }
    let (id, h) = node.tip().await;
    rep.note(&format!("replay ({}): restarted node sits at {} ({})", r["case"].as_str().unwrap_or(""), id, hex::encode(&h[..4])));
}

pub async fn run(ctx: &Ctx, rep: &mut Report) {
    if let Some(path) = &ctx.replay {
        replay(path, rep).await;
        return;
    }
    let mut rng = ctx.rng();
    let plans: Vec<(u64, usize, u64)> = vec![(10, 34, 150), (40, 16, 250), (10, 30, 0), (12, 40, 200), (40, 24, 0), (10, 36, 300)];
    let n = ctx.scale(8, 64);
    for i in 0..n {
        if !ctx.mine(i) {
            continue;
        }
        let (gp, len, forks) = plans[(i as usize) % plans.len()];
        one_history(ctx, &mut rng, gp, len, forks, rep).await;
    }
    let _ = snapshot;
}
