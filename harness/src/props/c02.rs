//! C02 — token supply is conserved (u128 supply equation after every accepted block; no
//! accepted transaction pays out more than it consumes).
use saito_core::core::consensus::transaction::{Transaction, TransactionType};
use serde_json::json;

use crate::chain::TYPE_BOUND;
use crate::history::{History, HistoryCfg};
use crate::monitors::supply;
use crate::props::Ctx;
use crate::report::Report;
use crate::rng::Rng;
use crate::world::*;

pub struct Regime {
    pub name: &'static str,
    pub cfg: HistoryCfg,
    pub blocks: usize,
}

pub fn regimes(rng: &mut Rng, thorough: bool) -> Vec<Regime> {
    let mut out = vec![];
    let gps: Vec<u64> = if thorough { vec![4, 6, 10, 50] } else { vec![4, 6, 10] };
    for gp in gps {
        let blocks = (4 * gp as usize).min(if thorough { 120 } else { 44 });
        // zero / low fees
        let mut c = HistoryCfg::basic(Params::with_gp(gp));
        c.fee = (0, 300);
        out.push(Regime { name: "low-fees", cfg: c, blocks });
        // high fees so that the rolling fee-per-byte is >= 1: rebroadcast fee non-zero, dust
        let mut c = HistoryCfg::basic(Params::with_gp(gp));
        c.fee = (20_000, 90_000);
        c.dust_permille = 300;
        out.push(Regime { name: "high-fees-dust", cfg: c, blocks });
        // small outputs, huge fees: treasury outgrows the rebroadcast volume (payout multiplier > 1)
        let mut c = HistoryCfg::basic(Params::with_gp(gp));
        c.issuance = (0..5).map(|i| (0..24).map(|j| 300_000 + 1000 * i as u64 + j as u64).collect()).collect();
        c.fee = (30_000, 90_000);
        c.amount = (10, 400);
        c.gt_permille = 500;
        c.txs = (3, 6);
        out.push(Regime { name: "treasury-heavy", cfg: c, blocks });
        // most of every spent output is burnt as fee: after a few hundred blocks the treasury
        // exceeds the rebroadcast volume and the ATR payout multiplier becomes > 1
        if gp <= 6 {
            let mut c = HistoryCfg::basic(Params::with_gp(gp));
            c.issuance = (0..5).map(|i| (0..30).map(|j| 3_000_000 + 1000 * i as u64 + j as u64).collect()).collect();
            c.fee_fraction_permille = Some(700);
            c.gt_permille = 500;
            c.txs = (2, 5);
            out.push(Regime { name: "fee-burn-long", cfg: c, blocks: if thorough { 600 } else { 260 } });
        }
        // NFT-style bound groups that are rebroadcast at the window edge
        let mut c = HistoryCfg::basic(Params::with_gp(gp));
        c.fee = (5_000, 60_000);
        c.nft_permille = 400;
        out.push(Regime { name: "nft-groups", cfg: c, blocks });
        // forks and reorganisations
        let mut c = HistoryCfg::basic(Params::with_gp(gp.max(6)));
        c.fee = (100, 40_000);
        c.fork_permille = 250;
        out.push(Regime { name: "forks", cfg: c, blocks });
        // long stretches without golden tickets (unpaid fees go to the graveyard)
        let mut c = HistoryCfg::basic(Params::with_gp(gp));
        c.fee = (1_000, 50_000);
        c.gt_permille = 50;
        out.push(Regime { name: "few-golden-tickets", cfg: c, blocks });
        // every block pays out
        let mut c = HistoryCfg::basic(Params::with_gp(gp));
        c.fee = (1_000, 50_000);
        c.gt_permille = 1000;
        c.max_difficulty = 9;
        out.push(Regime { name: "many-golden-tickets", cfg: c, blocks: blocks.min(30) });
        // staking
        let mut p = Params::with_gp(gp.max(6));
        p.stake = 10_000;
        p.stake_period = 3;
        let mut c = HistoryCfg::basic(p);
        c.fee = (100, 20_000);
        out.push(Regime { name: "staking", cfg: c, blocks });
        // amounts near 2^61 (sums approach 2^63)
        let mut c = HistoryCfg::basic(Params::with_gp(gp));
        c.issuance = (0..5).map(|i| vec![(1u64 << 60) + i as u64, (1 << 59) + 17, 1 << 40, 3_000_000]).collect();
        c.amount = (1 << 30, 1 << 58);
        c.fee = (0, 1 << 40);
        out.push(Regime { name: "huge-amounts", cfg: c, blocks: blocks.min(24) });
    }
    rng.shuffle(&mut out);
    out
}

pub async fn run_history(reg: &Regime, rng: &mut Rng, rep: &mut Report, build: &str) {
    let gp = reg.cfg.params.gp;
    let mut h = History::new(reg.cfg.clone()).await;
    let issued = h.b.store.ledger(&h.b.genesis.clone()).issued;
    rep.count(&format!("histories.{}", reg.name));
    let mut trace: Vec<String> = vec![];
    for _ in 0..reg.blocks {
        let step = match h.step(rng).await {
            Ok(s) => s,
            Err(e) => {
                // (the producer is a real node too: its own supply audit firing on the block it just
                // built and wound is the same observation one step earlier)
                if e.contains("replica panicked") || (e.contains("producer panicked") && e.contains("invalid total supply")) {
                    let clause = if e.contains("invalid total supply") { "node-supply-check-aborts" } else if e.contains("overflow") { "arithmetic-overflow" } else { "panic" };
                    rep.violation(
                        &format!("C02|clause={}|regime={}|{}", clause, reg.name, e.split('[').nth(1).unwrap_or("").trim_end_matches(']')),
                        &format!("[{} gp={} {}] after {:?}: {}", reg.name, gp, build, trace.iter().rev().take(6).collect::<Vec<_>>(), e),
                        json!({"kind":"history","regime":reg.name,"params":reg.cfg.params.describe(),"chain_hex": h.b.store.ancestors(&h.head).iter().map(|x| hex::encode(&h.b.store.get(x).bytes)).collect::<Vec<_>>()}),
                    );
                    return;
                }
                // the producer could not build / refused its own block: C07's business
                rep.count("producer_failures");
                rep.note(&format!("[{}] producer: {}", reg.name, &e[..e.len().min(160)]));
                return;
            }
        };
        rep.eval();
        let blk = h.b.store.get(&step.hash).block.clone();
        trace.push(format!("{}{}{}", step.id, if step.with_gt { "G" } else { "-" }, if step.reorg { "R" } else { "" }));
        rep.nontrivial(&format!("{}|{}|{}|{}|{}|{}", reg.name, gp, step.id, step.with_gt, step.reorg, blk.transactions.len()));
        match &step.replica_result {
            Some(Added::Ok(_)) => {}
            other => {
                rep.count("replica_refused_honest_block");
                rep.note(&format!("[{}] replica refused honest block {}: {:?}", reg.name, step.id, other));
                return;
            }
        }
        // per-transaction: outputs <= inputs in exact arithmetic, cached fee equals the difference
        for tx in &blk.transactions {
            let tin: u128 = tx.from.iter().filter(|s| s.slip_type as u8 != TYPE_BOUND).map(|s| s.amount as u128).sum();
            let tout: u128 = tx.to.iter().filter(|s| s.slip_type as u8 != TYPE_BOUND).map(|s| s.amount as u128).sum();
            match tx.transaction_type {
                TransactionType::Normal | TransactionType::Bound | TransactionType::BlockStake | TransactionType::GoldenTicket | TransactionType::Vip => {
                    rep.count("txs_checked");
                    if tout > tin {
                        rep.violation(
                            &format!("C02|clause=tx-outputs-exceed-inputs|type={:?}", tx.transaction_type),
                            &format!("[{}] accepted transaction pays out {} but consumes {}", reg.name, tout, tin),
                            json!({"tx_hex": hex::encode(tx.serialize_for_net())}),
                        );
                    }
                    if tx.total_fees as u128 != tin - tout.min(tin) {
                        rep.violation(
                            &format!("C02|clause=cached-fee-differs|type={:?}", tx.transaction_type),
                            &format!("[{}] cached total_fees {} but inputs - outputs = {}", reg.name, tx.total_fees, tin - tout.min(tin)),
                            json!({"tx_hex": hex::encode(tx.serialize_for_net())}),
                        );
                    }
                }
                TransactionType::ATR => rep.count("atr_txs"),
                TransactionType::Fee => {
                    if !tx.to.is_empty() {
                        rep.count("fee_txs_with_payout");
                    }
                }
                _ => {}
            }
        }
        if blk.has_golden_ticket {
            rep.count("blocks_with_gt");
        }
        if blk.transactions.iter().any(|t| t.transaction_type == TransactionType::ATR) {
            rep.count("blocks_with_atr");
        }
        if step.reorg {
            rep.count("reorgs");
        }
        if blk.total_payout_atr > 0 {
            rep.count("blocks_with_atr_payout_from_treasury");
        }
        if blk.total_fees_atr > 0 {
            rep.count("blocks_with_atr_fees");
        }
        if blk.avg_fee_per_byte > 0 {
            rep.count("blocks_with_nonzero_avg_fee_per_byte");
        }
        if blk.total_payout_graveyard > 0 {
            rep.count("blocks_paying_graveyard");
        }
        if blk.total_payout_treasury > 0 {
            rep.count("blocks_paying_treasury");
        }
        // ---- a hostile producer: the same block with its value-bearing parts tampered with and
        // resealed by its creator, offered to a fresh replica sitting on the parent. Whatever the
        // replica adopts must leave the supply where it was.
        if step.id % 3 == 0 && h.b.store.has(&step.parent) {
            hostile_producer_variants(&mut h, &blk, &step.parent, issued, reg.name, rng, rep).await;
        }
        if !step.tip_moved {
            continue;
        }
        // supply equation on the replica, exact arithmetic
        let chain = h.replica.chain.read().await;
        let tip = chain.get_latest_block().cloned();
        rep.count("accepted_blocks");
        if let (Some(s), Some(tip)) = (supply(&chain, gp), tip) {
            if tip.treasury > 0 {
                rep.count("blocks_with_treasury");
            }
            if tip.graveyard > 0 {
                rep.count("blocks_with_graveyard");
            }
            if s != issued {
                let diff = s as i128 - issued as i128;
                rep.violation(
                    &format!("C02|clause=supply-changed|regime={}|{}", reg.name, if diff > 0 { "inflation" } else { "loss" }),
                    &format!(
                        "[{} gp={}] after block {} (trace {:?}): supply {} vs issued {} (diff {}); treasury {} graveyard {} unpaid {} fees {} (new {} atr {}) payout atr {}",
                        reg.name, gp, tip.id, trace.iter().rev().take(8).collect::<Vec<_>>(), s, issued, diff, tip.treasury, tip.graveyard, tip.previous_block_unpaid, tip.total_fees, tip.total_fees_new, tip.total_fees_atr, tip.total_payout_atr
                    ),
                    json!({"kind":"history","regime":reg.name,"params":reg.cfg.params.describe(),"chain_hex": h.b.store.ancestors(&tip.hash).iter().map(|x| hex::encode(&h.b.store.get(x).bytes)).collect::<Vec<_>>()}),
                );
                return;
            }
            if tip.total_fees != tip.total_fees_new.wrapping_add(tip.total_fees_atr) {
                rep.violation(
                    "C02|clause=fee-split",
                    &format!("[{}] block {} total_fees {} != new {} + atr {}", reg.name, tip.id, tip.total_fees, tip.total_fees_new, tip.total_fees_atr),
                    json!({"block_hex": hex::encode(block_bytes(&tip))}),
                );
            }
        }
    }
    rep.sample(json!({"regime": reg.name, "gp": gp, "trace (id, G=golden ticket, R=reorg on replica)": trace.iter().take(40).collect::<Vec<_>>()}));
}

async fn hostile_producer_variants(h: &mut History, blk: &saito_core::core::consensus::block::Block, parent: &Hash, issued: u128, regime: &str, rng: &mut Rng, rep: &mut Report) {
    use saito_core::core::consensus::block::Block;
    let gp = h.cfg.params.gp;
    let creator = h.b.actors[0].clone();
    let thief = h.b.actors[2].clone();
    for variant in 0..9u8 {
        let mut rebuild = false;
        let mut b = match Block::deserialize_from_net(&block_bytes(blk)) {
            Ok(b) => b,
            Err(_) => return,
        };
        let name = match variant {
            0 => {
                // a hand-made fee transaction (with or without a golden ticket in the block)
                let mut tx = Transaction::default();
                tx.transaction_type = TransactionType::Fee;
                tx.timestamp = b.timestamp;
                let mut o = out_slip(&thief.pk, 777_000_000);
                o.slip_type = saito_core::core::consensus::slip::SlipType::MinerOutput;
                tx.add_to_slip(o);
                if b.transactions.iter().any(|t| t.transaction_type == TransactionType::Fee) {
                    continue;
                }
                b.transactions.push(tx);
                "forged-fee-transaction"
            }
            1 => match b.transactions.iter_mut().find(|t| t.transaction_type == TransactionType::Fee && !t.to.is_empty()) {
                Some(t) => {
                    t.to[0].amount += 1_000_000;
                    "fee-payout-inflated"
                }
                None => continue,
            },
            2 => {
                let mut tx = Transaction::default();
                tx.transaction_type = TransactionType::Issuance;
                tx.timestamp = b.timestamp;
                tx.add_to_slip(out_slip(&thief.pk, 5_000_000));
                tx.sign(&creator.sk);
                b.transactions.push(tx);
                "extra-issuance-transaction"
            }
            3 => match b.transactions.iter_mut().find(|t| t.transaction_type == TransactionType::ATR && !t.to.is_empty()) {
                Some(t) => {
                    t.to[0].amount += 50_000;
                    "rebroadcast-output-inflated"
                }
                None => continue,
            },
            4 => {
                if b.treasury < 2 {
                    continue;
                }
                b.treasury -= 1 + b.treasury / 2;
                "treasury-lowered"
            }
            7 => {
                // 256 issuance transactions: the per-kind counters of the block's consensus values
                // are bytes, so the 256th brings the count back to 0
                for i in 0..256u64 {
                    let mut tx = Transaction::default();
                    tx.transaction_type = TransactionType::Issuance;
                    tx.timestamp = b.timestamp;
                    tx.add_to_slip(out_slip(&thief.pk, 5_000_000 + i));
                    tx.sign(&creator.sk);
                    b.transactions.push(tx);
                }
                "256-issuance-transactions"
            }
            8 => {
                // 256 hand-made fee transactions in front of the genuine one (count 257 = 1 mod 256)
                let at = match b.transactions.iter().position(|t| t.transaction_type == TransactionType::Fee) {
                    Some(i) => i,
                    None => continue,
                };
                for i in 0..256u64 {
                    let mut tx = Transaction::default();
                    tx.transaction_type = TransactionType::Fee;
                    tx.timestamp = b.timestamp;
                    let mut o = out_slip(&thief.pk, 7_000_000 + i);
                    o.slip_type = saito_core::core::consensus::slip::SlipType::MinerOutput;
                    tx.add_to_slip(o);
                    b.transactions.insert(at, tx);
                }
                "256-forged-fee-transactions-before-the-genuine-one"
            }
            6 => {
                // one payout / rebroadcast output (slip types other than Normal) spent by two
                // different signed transactions of the same block; the header is rebuilt around
                // them, so the only thing wrong with the block is the second spend
                let ledger = h.b.store.ledger(parent);
                let o = ledger.utxo.values().find(|o| matches!(o.slip_type, 1 | 5 | 7) && o.amount > 10 && o.block_id + gp > b.id + 1 && h.b.actors.iter().any(|a| a.pk == o.owner)).cloned();
                let o = match o {
                    Some(o) => o,
                    None => continue,
                };
                let owner = h.b.actors.iter().find(|a| a.pk == o.owner).unwrap().clone();
                let t1 = build_tx(&owner, &[o.clone()], &[(owner.pk, o.amount)], b.timestamp.saturating_sub(3), b"first");
                let t2 = build_tx(&owner, &[o.clone()], &[(thief.pk, o.amount)], b.timestamp.saturating_sub(2), b"second");
                b.transactions.insert(0, t2);
                b.transactions.insert(0, t1);
                rebuild = true;
                "payout-output-spent-twice-in-one-block"
            }
            _ => match b.transactions.iter_mut().find(|t| t.transaction_type == TransactionType::Normal && t.to.iter().any(|s| s.amount > 0)) {
                Some(t) => {
                    let i = t.to.iter().position(|s| s.amount > 0).unwrap();
                    t.to[i].amount += 10_000;
                    "payment-output-inflated-unsigned"
                }
                None => continue,
            },
        };
        if rebuild {
            let pnode = h.b.producer_at(parent).await;
            crate::props::c01::rebuild_header(&pnode, &mut b).await;
            h.b.keep_producer(*parent, pnode);
        } else {
            crate::props::c04::reseal(&mut b, &creator, true);
        }
        let bytes = block_bytes(&b);
        let key = h.b.actors[3].clone();
        let mut sut = h.b.fresh_replica(parent, &key).await;
        let before = sut.tip().await;
        let r = crate::panics::catch_async(sut.add_bytes(&bytes)).await;
        rep.eval();
        rep.count("hostile_producer_blocks");
        rep.count(&format!("hostile_producer.{}", name));
        rep.nontrivial(&format!("hostile|{}|{}|{}", regime, name, blk.id));
        let witness = json!({"kind":"hostile-producer","variant":name,"block_hex":hex::encode(&bytes),"parent_chain_hex": h.b.store.ancestors(parent).iter().map(|x| hex::encode(&h.b.store.get(x).bytes)).collect::<Vec<_>>()});
        match r {
            Err(p) => {
                let clause = if p.message.contains("invalid total supply") { "node-supply-check-aborts" } else { "panic" };
                rep.violation(&format!("C02|clause={}|hostile-producer={}|{}", clause, name, p.signature()), &format!("[{}] a block with {} (resealed by its creator) made add_block panic: {}", regime, name, p.message), witness);
            }
            Ok(_) => {
                let after = sut.tip().await;
                if after != before {
                    rep.count("hostile_producer_blocks_adopted");
                    rep.count(&format!("hostile_producer_adopted.{}", name));
                    let chain = sut.chain.read().await;
                    if let Some(sup) = supply(&chain, gp) {
                        if sup != issued {
                            rep.violation(
                                &format!("C02|clause=supply-changed|hostile-producer={}", name),
                                &format!("[{}] a block with {} was adopted and the supply is {} instead of {}", regime, name, sup, issued),
                                witness,
                            );
                        }
                    }
                } else {
                    rep.count("hostile_producer_blocks_refused");
                }
            }
        }
        let _ = rng.below(2);
    }
}

pub async fn run(ctx: &Ctx, rep: &mut Report) {
    let mut rng = ctx.rng();
    let mut all = regimes(&mut Rng::new(ctx.seed), ctx.thorough);
    let repeats = ctx.scale(5, 30);
    let mut work = 0u64;
    for rpt in 0..repeats {
        for reg in all.iter_mut() {
            work += 1;
            if !ctx.mine(work) {
                continue;
            }
            let _ = rpt;
            run_history(reg, &mut rng, rep, &ctx.build).await;
        }
    }
}
