//! C19 — wallet accounting matches the ledger; transactions the wallet builds are sound.
use std::collections::BTreeSet;

use saito_core::core::consensus::transaction::Transaction;
use serde_json::json;

use crate::chain::{BlockSpec, Builder, RefLedger, TYPE_BOUND, TYPE_STAKE};
use crate::corpus::default_issuance;
use crate::history::density_ok;
use crate::props::c01::ref_invalid;
use crate::props::Ctx;
use crate::report::Report;
use crate::rng::Rng;
use crate::world::*;

const W: usize = 1; // the wallet owner

struct Sc {
    b: Builder,
    node: LNode,
    tip: Hash,
    /// inputs the wallet committed to transactions it built that are not on chain (yet)
    committed: BTreeSet<[u8; 59]>,
    /// built transactions waiting to be included
    outbox: Vec<Transaction>,
    reorged: bool,
    trace: Vec<String>,
}

fn ledger_slips(ledger: &RefLedger, pk: &PK, gp: u64) -> BTreeSet<[u8; 59]> {
    ledger
        .utxo
        .values()
        .filter(|o| &o.owner == pk && ledger.in_window(o, gp) && o.slip_type != TYPE_BOUND && o.slip_type != TYPE_STAKE)
        .map(|o| o.key())
        .collect()
}

async fn check_wallet(sc: &mut Sc, rep: &mut Report, after: &str) -> bool {
    let gp = sc.b.params.gp;
    let wallet = sc.node.wallet.read().await;
    let witness = json!({"kind":"wallet-ops","trace": sc.trace});
    rep.count("wallet_checks");
    // E1: balance equals the sum of the slips listed as unspent (always)
    let mut sum: u128 = 0;
    let mut missing = 0;
    for k in wallet.unspent_slips.iter() {
        match wallet.slips.get(k) {
            Some(s) => sum += s.amount as u128,
            None => missing += 1,
        }
    }
    if missing > 0 || sum != wallet.get_available_balance() as u128 {
        rep.violation(
            &format!("C19|clause=balance-differs-from-unspent-sum|after={}|reorg={}", after, sc.reorged),
            &format!("after {}: available balance {} but the {} unspent slips sum to {} ({} listed slips unknown); trace {:?}", after, wallet.get_available_balance(), wallet.unspent_slips.len(), sum, missing, sc.trace.iter().rev().take(10).collect::<Vec<_>>()),
            witness.clone(),
        );
        return false;
    }
    // E2: on chains without reorganisation the unspent list is the ledger's view minus own commitments
    if !sc.reorged {
        let ledger = sc.b.store.ledger(&sc.tip);
        let mut expect = ledger_slips(&ledger, &sc.b.actors[W].pk, gp);
        for k in sc.committed.iter() {
            expect.remove(k);
        }
        let got: BTreeSet<[u8; 59]> = wallet.unspent_slips.iter().cloned().collect();
        if got != expect {
            let extra: Vec<_> = got.difference(&expect).collect();
            let lacking: Vec<_> = expect.difference(&got).collect();
            let describe = |k: &[u8; 59]| format!("{}-{}-{} amount {} type {}", u64::from_be_bytes(k[33..41].try_into().unwrap()), u64::from_be_bytes(k[41..49].try_into().unwrap()), k[49], u64::from_be_bytes(k[50..58].try_into().unwrap()), k[58]);
            rep.violation(
                &format!("C19|clause=unspent-list-differs-from-ledger|{}|after={}", if !extra.is_empty() && !lacking.is_empty() { "extra+lacking" } else if !extra.is_empty() { "extra" } else { "lacking" }, after),
                &format!("after {} (tip {}, gp {}): wallet lists {} unspent slips, ledger minus own commitments has {}; extra in wallet: {:?}; lacking: {:?}; trace {:?}", after, ledger.tip_id, gp, got.len(), expect.len(), extra.iter().take(3).map(|k| describe(k)).collect::<Vec<_>>(), lacking.iter().take(3).map(|k| describe(k)).collect::<Vec<_>>(), sc.trace.iter().rev().take(10).collect::<Vec<_>>()),
                witness,
            );
            return false;
        }
        rep.count("ledger_comparisons");
    }
    true
}

/// the wallet builds a payment; returns false when a violation ended the scenario
async fn build_spend(sc: &mut Sc, rng: &mut Rng, rep: &mut Report) -> bool {
    let gp = sc.b.params.gp;
    let (balance, latest) = {
        let w = sc.node.wallet.read().await;
        (w.get_available_balance(), sc.b.store.get(&sc.tip).id)
    };
    let (amount, fee, label) = match rng.below(6) {
        0 => (balance, 0, "exact-funds"),
        1 => (balance / 2, balance, "fee-above-balance"),
        2 => (balance.saturating_sub(1), 1, "all-but-fee"),
        3 => (0, 0, "zero"),
        4 => (balance.saturating_add(1), 0, "over-balance"),
        _ => (1 + rng.below(balance.max(2) / 2), rng.below(balance.max(4) / 4), "ordinary"),
    };
    let to = sc.b.actors[(2 + rng.below(3)) as usize].pk;
    let ledger = sc.b.store.ledger(&sc.tip);
    let built = {
        let mut w = sc.node.wallet.write().await;
        let r = crate::panics::catch(|| Transaction::create(&mut w, to, amount, fee, false, None, latest, gp));
        match r {
            Ok(Ok(mut tx)) => {
                tx.generate(&sc.b.actors[W].pk, 0, 0);
                tx.sign(&sc.b.actors[W].sk);
                tx.generate(&sc.b.actors[W].pk, 0, 0);
                Some(tx)
            }
            Ok(Err(_)) => None,
            Err(p) => {
                rep.violation(&format!("C19|clause=create-panics|case={}|{}", label, p.signature()), &format!("Transaction::create panicked ({}): {}", label, p.message), json!({"kind":"wallet-ops","trace": sc.trace}));
                return false;
            }
        }
    };
    rep.count(&format!("builds.{}", label));
    let tx = match built {
        Some(t) => t,
        None => {
            rep.count("builds_refused");
            return true;
        }
    };
    rep.eval();
    rep.count("built_txs");
    rep.nontrivial(&format!("build|{}|{}|{}|{}", label, tx.from.len(), tx.to.len(), latest));
    let witness = json!({"kind":"wallet-ops","trace": sc.trace, "tx_hex": hex::encode(tx.serialize_for_net()), "case": label, "balance": balance, "amount": amount, "fee": fee});
    // E3: distinct inputs, outputs <= inputs, valid against the ledger it was built on
    let keys: Vec<[u8; 59]> = tx.from.iter().filter(|s| s.amount > 0).map(|s| ref_key(&s.public_key, s.block_id, s.tx_ordinal, s.slip_index, s.amount, s.slip_type as u8)).collect();
    let distinct: BTreeSet<_> = keys.iter().cloned().collect();
    if distinct.len() != keys.len() {
        rep.violation(&format!("C19|clause=built-tx-repeats-input|case={}", label), "a transaction built by the wallet lists an output twice", witness.clone());
        return false;
    }
    let tin: u128 = tx.from.iter().map(|s| s.amount as u128).sum();
    let tout: u128 = tx.to.iter().map(|s| s.amount as u128).sum();
    if tout > tin {
        rep.violation(
            &format!("C19|clause=built-tx-outputs-exceed-inputs|reorg={}", sc.reorged),
            &format!("the wallet built a transaction paying out {} from inputs worth {} (balance {}, amount {}, fee {}, gp {}, tip {})", tout, tin, balance, amount, fee, gp, latest),
            witness.clone(),
        );
        return false;
    }
    if let Some(why) = ref_invalid(&tx, &ledger, gp, latest + 1) {
        for s in tx.from.iter().filter(|s| s.amount > 0) {
            let k = ref_key(&s.public_key, s.block_id, s.tx_ordinal, s.slip_index, s.amount, s.slip_type as u8);
            if !ledger.utxo.contains_key(&k) {
                let near: Vec<_> = ledger.utxo.values().filter(|o| o.block_id == s.block_id && o.owner == s.public_key).map(|o| (o.tx_ordinal, o.slip_index, o.amount, o.slip_type)).collect();
                rep.note(&format!("input not in ledger: {}-{}-{} amount {} type {:?}; ledger outputs of that key in that block: {:?}; committed: {}", s.block_id, s.tx_ordinal, s.slip_index, s.amount, s.slip_type, near, sc.committed.contains(&k)));
            }
        }
        rep.violation(
            &format!("C19|clause=built-tx-invalid|why={}|reorg={}", why, sc.reorged),
            &format!("the wallet built a transaction that is invalid on the ledger it was built on: {} (balance {}, amount {}, fee {})", why, balance, amount, fee),
            witness.clone(),
        );
        return false;
    }
    let node_valid = {
        let chain = sc.node.chain.read().await;
        tx.validate(&chain.utxoset, &chain, true)
    };
    if !node_valid {
        rep.violation(&format!("C19|clause=built-tx-refused-by-own-node|case={}", label), "Transaction::validate refuses a transaction the wallet just built", witness);
        return false;
    }
    for k in keys {
        sc.committed.insert(k);
    }
    // most built transactions get submitted; some are never sent (their inputs stay committed)
    if rng.chance(4, 5) {
        sc.outbox.push(tx);
    } else {
        rep.count("built_never_submitted");
    }
    true
}

async fn next_block(sc: &mut Sc, rng: &mut Rng, rep: &mut Report, parent: Hash, include_outbox: bool) -> Option<Hash> {
    let hb = sc.b.params.heartbeat;
    let n = sc.b.actors.len();
    let mut txs: Vec<Transaction> = vec![];
    if include_outbox {
        txs.append(&mut sc.outbox);
    }
    let mut exclude = vec![];
    // incoming payments to the wallet and unrelated traffic
    for _ in 0..rng.below(3) {
        let from = [0usize, 2, 3, 4][rng.below(4) as usize];
        let amount = 1_000 + rng.below(200_000);
        let fee = 50 + rng.below(500);
        if let Some(t) = sc.b.payment(rng, &parent, from, W, amount, fee, &mut exclude) {
            txs.push(t);
            rep.count("incoming_payments");
        }
    }
    if txs.is_empty() {
        txs.push(build_tx(&sc.b.actors[3], &[], &[], sc.b.store.get(&parent).ts + 2, b"noop"));
    }
    let id = sc.b.store.get(&parent).id + 1;
    let with_gt = !density_ok(&sc.b, &parent, false) || id % 2 == 0;
    let spec = BlockSpec { gap: 2 * hb + rng.below(3000), txs, with_gt, gt_miner: [0usize, W, 2][rng.below(3) as usize] };
    let _ = n;
    match sc.b.extend(rng, &parent, &spec).await {
        Ok(h) => Some(h),
        Err(e) => {
            rep.count(if sc.reorged { "block_build_failed.after-reorg" } else { "block_build_failed.linear" });
            rep.note(&format!("block not built (reorged={}): {}", sc.reorged, &e[..e.len().min(120)]));
            None
        }
    }
}

async fn scenario(rng: &mut Rng, rep: &mut Report, with_reorgs: bool, gp: u64, steps: usize) {
    let n = 5;
    let params = Params::with_gp(gp);
    let b = Builder::new(&params, n, &default_issuance(n)).await;
    let mut node = LNode::new(&b.actors[W], &params);
    node.add_bytes(&b.store.get(&b.genesis).bytes.clone()).await;
    let tip = b.genesis;
    let mut sc = Sc { b, node, tip, committed: BTreeSet::new(), outbox: vec![], reorged: false, trace: vec![] };
    rep.count(if with_reorgs { "scenarios.with-reorgs" } else { "scenarios.linear" });
    if !check_wallet(&mut sc, rep, "genesis").await {
        return;
    }
    for step in 0..steps {
        let op = rng.below(10);
        if op < 4 {
            sc.trace.push(format!("build@{}", sc.b.store.get(&sc.tip).id));
            if !build_spend(&mut sc, rng, rep).await {
                return;
            }
            if !check_wallet(&mut sc, rep, "build").await {
                return;
            }
        } else if op < 9 || !with_reorgs {
            let parent = sc.tip;
            let included: Vec<[u8; 59]> = sc.outbox.iter().flat_map(|t| t.from.iter().filter(|s| s.amount > 0).map(|s| ref_key(&s.public_key, s.block_id, s.tx_ordinal, s.slip_index, s.amount, s.slip_type as u8)).collect::<Vec<_>>()).collect();
            let h = match next_block(&mut sc, rng, rep, parent, true).await {
                Some(h) => h,
                None => return,
            };
            let bytes = sc.b.store.get(&h).bytes.clone();
            let r = crate::panics::catch_async(sc.node.add_bytes(&bytes)).await;
            match r {
                Ok(Some(Added::Ok(true))) => {}
                Ok(other) => {
                    rep.note(&format!("block refused by the wallet node: {:?}", other.map(|x| x.short())));
                    return;
                }
                Err(p) => {
                    rep.violation(&format!("C19|clause=wallet-panics-on-block|reorg={}|{}", sc.reorged, p.signature()), &format!("adding a block panicked: {} (trace {:?})", p.message, sc.trace.iter().rev().take(8).collect::<Vec<_>>()), json!({"kind":"wallet-ops","trace": sc.trace}));
                    return;
                }
            }
            sc.tip = h;
            for k in included {
                sc.committed.remove(&k);
            }
            let id = sc.b.store.get(&h).id;
            if id > gp + 1 {
                rep.count("blocks_after_window_wrapped");
            }
            sc.trace.push(format!("block{}", id));
            rep.count("blocks");
            if !check_wallet(&mut sc, rep, "block").await {
                return;
            }
        } else {
            // a reorganisation: two blocks on the parent of the tip (wallet spends / receipts of
            // the abandoned block are unwound)
            let parent = sc.b.store.get(&sc.tip).prev;
            if parent == [0; 32] {
                continue;
            }
            let mut cur = parent;
            for _ in 0..2 {
                match next_block(&mut sc, rng, rep, cur, false).await {
                    Some(h) => {
                        let bytes = sc.b.store.get(&h).bytes.clone();
                        let r = crate::panics::catch_async(sc.node.add_bytes(&bytes)).await;
                        if let Err(p) = r {
                            rep.violation(&format!("C19|clause=wallet-panics-on-block|reorg=true|{}", p.signature()), &format!("adding a block during a reorganisation panicked: {} (trace {:?})", p.message, sc.trace.iter().rev().take(8).collect::<Vec<_>>()), json!({"kind":"wallet-ops","trace": sc.trace}));
                            return;
                        }
                        cur = h;
                    }
                    None => return,
                }
            }
            if sc.node.tip().await.1 == cur {
                sc.tip = cur;
                sc.reorged = true;
                rep.count("reorgs");
                sc.trace.push(format!("reorg->{}", sc.b.store.get(&cur).id));
            }
            if !check_wallet(&mut sc, rep, "reorg").await {
                return;
            }
        }
        let _ = step;
    }
    rep.sample(json!({"gp": gp, "with_reorgs": with_reorgs, "ops": sc.trace.iter().take(40).collect::<Vec<_>>()}));
}

pub async fn run(ctx: &Ctx, rep: &mut Report) {
    let mut rng = ctx.rng();
    let rounds = ctx.scale(240, 2400) / ctx.shards.max(1) + 1;
    for r in 0..rounds {
        let gp = [4u64, 6, 10, 40][(r % 4) as usize];
        let with_reorgs = r % 3 == 2;
        scenario(&mut rng, rep, with_reorgs, gp, 50).await;
    }
}
