//! C19 — wallet accounting matches the ledger; transactions the wallet builds are sound.
use std::collections::BTreeSet;

use saito_core::core::consensus::transaction::Transaction;
use serde_json::json;

use crate::chain::{BlockSpec, Builder, RefLedger, TYPE_BOUND, TYPE_STAKE};
use crate::corpus::default_issuance;
use crate::history::density_ok;
use crate::props::c01::ref_invalid;
use crate::props::Ctx;
use crate::report::Report;
use crate::rng::Rng;
use crate::world::*;

const W: usize = 1; // the wallet owner (actor 0, the block producer, in the staking scenarios)

struct Sc {
    b: Builder,
    node: LNode,
    tip: Hash,
    /// inputs the wallet committed to transactions it built that are not on chain (yet)
    committed: BTreeSet<[u8; 59]>,
    /// built transactions waiting to be included
    outbox: Vec<Transaction>,
    reorged: bool,
    trace: Vec<String>,
    /// index of the wallet owner among the actors
    w: usize,
    /// a light client's wallet for the same key: it sees every block as the lite block served
    /// for its key, after the wire (linear scenarios without staking)
    light: Option<saito_core::core::consensus::wallet::Wallet>,
}

fn ledger_slips(ledger: &RefLedger, pk: &PK, gp: u64) -> BTreeSet<[u8; 59]> {
    ledger
        .utxo
        .values()
        .filter(|o| &o.owner == pk && ledger.in_window(o, gp) && o.slip_type != TYPE_BOUND && o.slip_type != TYPE_STAKE)
        .map(|o| o.key())
        .collect()
}

async fn check_wallet(sc: &mut Sc, rep: &mut Report, after: &str) -> bool {
    let gp = sc.b.params.gp;
    let wallet = sc.node.wallet.read().await;
    let witness = json!({"kind":"wallet-ops","trace": sc.trace});
    rep.count("wallet_checks");
    // E1: balance equals the sum of the slips listed as unspent (always)
    let mut sum: u128 = 0;
    let mut missing = 0;
    for k in wallet.unspent_slips.iter() {
        match wallet.slips.get(k) {
            Some(s) => sum += s.amount as u128,
            None => missing += 1,
        }
    }
    if missing > 0 || sum != wallet.get_available_balance() as u128 {
        rep.violation(
            &format!("C19|clause=balance-differs-from-unspent-sum|after={}|reorg={}", after, sc.reorged),
            &format!("after {}: available balance {} but the {} unspent slips sum to {} ({} listed slips unknown); trace {:?}", after, wallet.get_available_balance(), wallet.unspent_slips.len(), sum, missing, sc.trace.iter().rev().take(10).collect::<Vec<_>>()),
            witness.clone(),
        );
        return false;
    }
    // E2: on chains without reorganisation the unspent list is the ledger's view minus own commitments
    if !sc.reorged {
        let ledger = sc.b.store.ledger(&sc.tip);
        let mut expect = ledger_slips(&ledger, &sc.b.actors[sc.w].pk, gp);
        for k in sc.committed.iter() {
            expect.remove(k);
        }
        let got: BTreeSet<[u8; 59]> = wallet.unspent_slips.iter().cloned().collect();
        if got != expect {
            let extra: Vec<_> = got.difference(&expect).collect();
            let lacking: Vec<_> = expect.difference(&got).collect();
            let describe = |k: &[u8; 59]| format!("{}-{}-{} amount {} type {}", u64::from_be_bytes(k[33..41].try_into().unwrap()), u64::from_be_bytes(k[41..49].try_into().unwrap()), k[49], u64::from_be_bytes(k[50..58].try_into().unwrap()), k[58]);
            rep.violation(
                &format!("C19|clause=unspent-list-differs-from-ledger|{}|after={}", if !extra.is_empty() && !lacking.is_empty() { "extra+lacking" } else if !extra.is_empty() { "extra" } else { "lacking" }, after),
                &format!("after {} (tip {}, gp {}): wallet lists {} unspent slips, ledger minus own commitments has {}; extra in wallet: {:?}; lacking: {:?}; trace {:?}", after, ledger.tip_id, gp, got.len(), expect.len(), extra.iter().take(3).map(|k| describe(k)).collect::<Vec<_>>(), lacking.iter().take(3).map(|k| describe(k)).collect::<Vec<_>>(), sc.trace.iter().rev().take(10).collect::<Vec<_>>()),
                witness,
            );
            return false;
        }
        rep.count("ledger_comparisons");
    }
    true
}

/// what a light client does with a block: the lite block for its key, across the wire, wound into
/// its wallet
fn light_wind(lw: &mut saito_core::core::consensus::wallet::Wallet, full: &saito_core::core::consensus::block::Block, pk: &PK, gp: u64) -> Vec<u32> {
    use saito_core::core::consensus::block::{Block, BlockType};
    use saito_core::core::consensus::transaction::TransactionType;
    let mut full = full.clone();
    let _ = full.generate();
    let lite = full.generate_lite_block(vec![*pk]);
    let mut got = Block::deserialize_from_net(&lite.serialize_for_net(BlockType::Full)).expect("lite block decodes");
    let _ = got.generate();
    lw.on_chain_reorganization(&got, true, gp);
    got.transactions.iter().filter(|t| t.transaction_type == TransactionType::SPV).map(|t| t.txs_replacements).collect()
}

/// the light wallet lists exactly the ledger's spendable in-window outputs of its key (it builds
/// nothing itself, so nothing is committed), and a payment it would build is valid on the ledger
fn check_light(sc: &mut Sc, rep: &mut Report, h: &Hash) -> bool {
    use saito_core::core::consensus::transaction::Transaction;
    let gp = sc.b.params.gp;
    let pk = sc.b.actors[sc.w].pk;
    let full = sc.b.store.get(h).block.clone();
    let lw = sc.light.as_mut().unwrap();
    let placeholders = light_wind(lw, &full, &pk, gp);
    rep.count("light_wallet_blocks");
    if placeholders.iter().any(|r| *r > 1) {
        rep.count("light_wallet_blocks_with_merged_placeholders");
    } else if !placeholders.is_empty() {
        rep.count("light_wallet_blocks_with_placeholders");
    }
    let ledger = sc.b.store.ledger(h);
    let expect = ledger_slips(&ledger, &pk, gp);
    let got: BTreeSet<[u8; 59]> = lw.unspent_slips.iter().cloned().collect();
    let witness = json!({"kind":"wallet-ops","trace": sc.trace, "block_hex": hex::encode(block_bytes(&full)), "placeholders": placeholders});
    if got != expect {
        let describe = |k: &[u8; 59]| format!("{}-{}-{} amount {}", u64::from_be_bytes(k[33..41].try_into().unwrap()), u64::from_be_bytes(k[41..49].try_into().unwrap()), k[49], u64::from_be_bytes(k[50..58].try_into().unwrap()));
        let extra: Vec<String> = got.difference(&expect).take(3).map(|k| describe(k)).collect();
        let lacking: Vec<String> = expect.difference(&got).take(3).map(|k| describe(k)).collect();
        rep.violation(
            "C19|clause=light-wallet-unspent-list-differs-from-ledger",
            &format!("after block {} received as a lite block (placeholders {:?}) the light client's wallet lists {} unspent outputs, the ledger has {} for its key; only in the wallet: {:?}; only in the ledger: {:?}", full.id, placeholders, got.len(), expect.len(), extra, lacking),
            witness,
        );
        return false;
    }
    rep.count("light_wallet_ledger_comparisons");
    // a payment built from a copy of the light wallet
    let balance = lw.get_available_balance();
    if balance > 10 {
        let mut copy = lw.clone();
        let to = sc.b.actors[2].pk;
        if let Ok(Ok(mut tx)) = crate::panics::catch(|| Transaction::create(&mut copy, to, balance / 2, 1, false, None, full.id, gp)) {
            tx.generate(&pk, 0, 0);
            tx.sign(&sc.b.actors[sc.w].sk);
            tx.generate(&pk, 0, 0);
            rep.count("light_wallet_built_txs");
            if let Some(why) = ref_invalid(&tx, &ledger, gp, full.id + 1) {
                rep.violation(&format!("C19|clause=light-wallet-built-tx-invalid|why={}", why), &format!("a payment built by the light client's wallet after block {} is invalid on the ledger: {}", full.id, why), witness);
                return false;
            }
        }
    }
    true
}

/// the wallet builds a payment; returns false when a violation ended the scenario
async fn build_spend(sc: &mut Sc, rng: &mut Rng, rep: &mut Report) -> bool {
    let gp = sc.b.params.gp;
    let (balance, latest) = {
        let w = sc.node.wallet.read().await;
        (w.get_available_balance(), sc.b.store.get(&sc.tip).id)
    };
    let (amount, fee, label) = match rng.below(6) {
        0 => (balance, 0, "exact-funds"),
        1 => (balance / 2, balance, "fee-above-balance"),
        2 => (balance.saturating_sub(1), 1, "all-but-fee"),
        3 => (0, 0, "zero"),
        4 => (balance.saturating_add(1), 0, "over-balance"),
        _ => (1 + rng.below(balance.max(2) / 2), rng.below(balance.max(4) / 4), "ordinary"),
    };
    let to = sc.b.actors[(2 + rng.below(3)) as usize].pk;
    let ledger = sc.b.store.ledger(&sc.tip);
    let built = {
        let mut w = sc.node.wallet.write().await;
        let r = crate::panics::catch(|| Transaction::create(&mut w, to, amount, fee, false, None, latest, gp));
        match r {
            Ok(Ok(mut tx)) => {
                tx.generate(&sc.b.actors[sc.w].pk, 0, 0);
                tx.sign(&sc.b.actors[sc.w].sk);
                tx.generate(&sc.b.actors[sc.w].pk, 0, 0);
                Some(tx)
            }
            Ok(Err(_)) => None,
            Err(p) => {
                rep.violation(&format!("C19|clause=create-panics|case={}|{}", label, p.signature()), &format!("Transaction::create panicked ({}): {}", label, p.message), json!({"kind":"wallet-ops","trace": sc.trace}));
                return false;
            }
        }
    };
    rep.count(&format!("builds.{}", label));
    if let Some(t) = &built {
        rep.max("built_tx_inputs", t.from.len() as u64);
    }
    let tx = match built {
        Some(t) => t,
        None => {
            rep.count("builds_refused");
            return true;
        }
    };
    judge_built(sc, rng, rep, tx, label, balance, amount, fee, &ledger, latest).await
}

/// E3 for a transaction the wallet just built; its inputs become commitments
#[allow(clippy::too_many_arguments)]
async fn judge_built(sc: &mut Sc, rng: &mut Rng, rep: &mut Report, tx: Transaction, label: &str, balance: u64, amount: u64, fee: u64, ledger: &RefLedger, latest: u64) -> bool {
    let gp = sc.b.params.gp;
    rep.eval();
    rep.count("built_txs");
    rep.nontrivial(&format!("build|{}|{}|{}|{}", label, tx.from.len(), tx.to.len(), latest));
    let witness = json!({"kind":"wallet-ops","trace": sc.trace, "tx_hex": hex::encode(tx.serialize_for_net()), "case": label, "balance": balance, "amount": amount, "fee": fee});
    // E3: distinct inputs, outputs <= inputs, valid against the ledger it was built on
    let keys: Vec<[u8; 59]> = tx.from.iter().filter(|s| s.amount > 0).map(|s| ref_key(&s.public_key, s.block_id, s.tx_ordinal, s.slip_index, s.amount, s.slip_type as u8)).collect();
    let distinct: BTreeSet<_> = keys.iter().cloned().collect();
    if distinct.len() != keys.len() {
        rep.violation(&format!("C19|clause=built-tx-repeats-input|case={}", label), "a transaction built by the wallet lists an output twice", witness.clone());
        return false;
    }
    // (the amounts carried by bound slips are identifiers, not value)
    let tin: u128 = tx.from.iter().filter(|s| s.slip_type as u8 != TYPE_BOUND).map(|s| s.amount as u128).sum();
    let tout: u128 = tx.to.iter().filter(|s| s.slip_type as u8 != TYPE_BOUND).map(|s| s.amount as u128).sum();
    if tout > tin {
        rep.violation(
            &format!("C19|clause=built-tx-outputs-exceed-inputs|reorg={}", sc.reorged),
            &format!("the wallet built a transaction paying out {} from inputs worth {} (balance {}, amount {}, fee {}, gp {}, tip {})", tout, tin, balance, amount, fee, gp, latest),
            witness.clone(),
        );
        return false;
    }
    if let Some(why) = ref_invalid(&tx, ledger, gp, latest + 1) {
        for s in tx.from.iter().filter(|s| s.amount > 0) {
            let k = ref_key(&s.public_key, s.block_id, s.tx_ordinal, s.slip_index, s.amount, s.slip_type as u8);
            if !ledger.utxo.contains_key(&k) {
                let near: Vec<_> = ledger.utxo.values().filter(|o| o.block_id == s.block_id && o.owner == s.public_key).map(|o| (o.tx_ordinal, o.slip_index, o.amount, o.slip_type)).collect();
                rep.note(&format!("input not in ledger: {}-{}-{} amount {} type {:?}; ledger outputs of that key in that block: {:?}; committed: {}", s.block_id, s.tx_ordinal, s.slip_index, s.amount, s.slip_type, near, sc.committed.contains(&k)));
            }
        }
        rep.violation(
            &format!("C19|clause=built-tx-invalid|why={}|reorg={}", why, sc.reorged),
            &format!("the wallet built a transaction that is invalid on the ledger it was built on: {} (balance {}, amount {}, fee {})", why, balance, amount, fee),
            witness.clone(),
        );
        return false;
    }
    let node_valid = {
        let chain = sc.node.chain.read().await;
        tx.validate(&chain.utxoset, &chain, true)
    };
    if !node_valid {
        if std::env::var("SVH_DEBUG").is_ok() {
            crate::logsink::install_stderr(log::LevelFilter::Debug);
            log::set_max_level(log::LevelFilter::Debug);
            let chain = sc.node.chain.read().await;
            eprintln!("=== refused tx: type {:?} from {:?} to {:?}", tx.transaction_type, tx.from.iter().map(|s| (s.block_id, s.tx_ordinal, s.slip_index, s.amount, s.slip_type)).collect::<Vec<_>>(), tx.to.iter().map(|s| (s.amount, s.slip_type)).collect::<Vec<_>>());
            let _ = tx.validate(&chain.utxoset, &chain, true);
            log::set_max_level(log::LevelFilter::Off);
        }
        rep.violation(&format!("C19|clause=built-tx-refused-by-own-node|case={}", label), "Transaction::validate refuses a transaction the wallet just built", witness);
        if label == "nft-with-further-inputs" {
            // the scenario goes on: the transaction is simply never sent, its inputs stay committed
            for k in keys {
                sc.committed.insert(k);
            }
            rep.count("built_never_submitted");
            return true;
        }
        return false;
    }
    for k in keys {
        sc.committed.insert(k);
    }
    // most built transactions get submitted; some are never sent (their inputs stay committed)
    if rng.chance(4, 5) {
        sc.outbox.push(tx);
    } else {
        rep.count("built_never_submitted");
    }
    true
}

/// the wallet creates an NFT from one of its outputs (Wallet::create_bound_transaction): with a
/// deposit below the output's amount (change) or above it (further inputs through generate_slips)
async fn build_nft(sc: &mut Sc, rng: &mut Rng, rep: &mut Report) -> bool {
    let gp = sc.b.params.gp;
    let latest = sc.b.store.get(&sc.tip).id;
    let ledger = sc.b.store.ledger(&sc.tip);
    let pk = sc.b.actors[sc.w].pk;
    let (balance, pick) = {
        let w = sc.node.wallet.read().await;
        let mut mine: Vec<OutRef> = ledger.utxo.values().filter(|o| o.owner == pk && o.slip_type == 0 && o.amount > 2_000 && ledger.in_window(o, gp) && o.block_id + gp > latest + 2 && w.unspent_slips.contains(&o.key())).cloned().collect();
        mine.sort_by_key(|o| o.key());
        if mine.is_empty() {
            return true;
        }
        (w.get_available_balance(), mine[rng.below(mine.len() as u64) as usize].clone())
    };
    let (deposit, label) = if rng.chance(1, 2) { (pick.amount / 2, "nft-with-change") } else { (pick.amount + 1 + rng.below(balance.saturating_sub(pick.amount).max(2) / 2), "nft-with-further-inputs") };
    let to = sc.b.actors[(2 + rng.below(3)) as usize].pk;
    let built = {
        let mut w = sc.node.wallet.write().await;
        let r = crate::panics::catch_async(w.create_bound_transaction(pick.amount, pick.block_id, pick.tx_ordinal, pick.slip_index as u64, deposit, vec![1, 2, 3], &to, None, latest, gp, "harness".to_string())).await;
        match r {
            Ok(Ok(mut tx)) => {
                tx.generate(&pk, 0, 0);
                tx.sign(&sc.b.actors[sc.w].sk);
                tx.generate(&pk, 0, 0);
                Some(tx)
            }
            Ok(Err(_)) => None,
            Err(p) => {
                rep.violation(&format!("C19|clause=create-panics|case={}|{}", label, p.signature()), &format!("Wallet::create_bound_transaction panicked ({}): {}", label, p.message), json!({"kind":"wallet-ops","trace": sc.trace}));
                return false;
            }
        }
    };
    rep.count(&format!("builds.{}", label));
    match built {
        Some(tx) => judge_built(sc, rng, rep, tx, label, balance, deposit, 0, &ledger, latest).await,
        None => {
            rep.count("builds_refused");
            true
        }
    }
}

async fn next_block(sc: &mut Sc, rng: &mut Rng, rep: &mut Report, parent: Hash, include_outbox: bool) -> Option<Hash> {
    let hb = sc.b.params.heartbeat;
    let n = sc.b.actors.len();
    let mut txs: Vec<Transaction> = vec![];
    if include_outbox {
        txs.append(&mut sc.outbox);
    }
    let mut exclude = vec![];
    // incoming payments to the wallet and unrelated traffic
    for _ in 0..rng.below(3) {
        let from = [0usize, 2, 3, 4][rng.below(4) as usize];
        let amount = 1_000 + rng.below(200_000);
        let fee = 50 + rng.below(500);
        if let Some(t) = sc.b.payment(rng, &parent, from, sc.w, amount, fee, &mut exclude) {
            txs.push(t);
            rep.count("incoming_payments");
        }
    }
    // traffic that does not touch the wallet (what a lite block replaces by placeholders)
    for _ in 0..rng.below(5) {
        let from = [2usize, 3, 4][rng.below(3) as usize];
        let to = [2usize, 3, 4][rng.below(3) as usize];
        if from != sc.w && to != sc.w {
            let (amount, fee) = (500 + rng.below(5_000), 20 + rng.below(100));
            if let Some(t) = sc.b.payment(rng, &parent, from, to, amount, fee, &mut exclude) {
                txs.push(t);
                rep.count("unrelated_payments");
            }
        }
    }
    if txs.is_empty() {
        txs.push(build_tx(&sc.b.actors[3], &[], &[], sc.b.store.get(&parent).ts + 2, b"noop"));
    }
    // (position of the wallet's transactions among the others varies)
    for i in (1..txs.len()).rev() {
        let j = rng.below(i as u64 + 1) as usize;
        txs.swap(i, j);
    }
    let id = sc.b.store.get(&parent).id + 1;
    let with_gt = !density_ok(&sc.b, &parent, false) || id % 2 == 0;
    let spec = BlockSpec { gap: 2 * hb + rng.below(3000), txs, with_gt, gt_miner: [0usize, sc.w, 2][rng.below(3) as usize] };
    let _ = n;
    match sc.b.extend(rng, &parent, &spec).await {
        Ok(h) => Some(h),
        Err(e) => {
            rep.count(if sc.reorged { "block_build_failed.after-reorg" } else { "block_build_failed.linear" });
            rep.note(&format!("block not built (reorged={}): {}", sc.reorged, &e[..e.len().min(120)]));
            None
        }
    }
}

async fn scenario(rng: &mut Rng, rep: &mut Report, with_reorgs: bool, gp: u64, steps: usize, staking: bool, fragmented: bool) {
    let n = 5;
    let mut params = Params::with_gp(gp);
    let w = if staking { 0 } else { W };
    if staking {
        // the wallet owner produces the blocks and stakes: its wallet holds stake outputs that are
        // part of neither the unspent list nor what generate_slips can select
        params.stake = 2_000_000;
        params.stake_period = 3;
        rep.count("scenarios.staking-producer");
    }
    let issuance = default_issuance(n);
    let b = Builder::new(&params, n, &issuance).await;
    let mut node = LNode::new(&b.actors[w], &params);
    node.add_bytes(&b.store.get(&b.genesis).bytes.clone()).await;
    let tip = b.genesis;
    let light = if !with_reorgs && !staking {
        let mut lw = saito_core::core::consensus::wallet::Wallet::new(b.actors[w].sk, b.actors[w].pk);
        let g = b.store.get(&b.genesis).block.clone();
        light_wind(&mut lw, &g, &b.actors[w].pk, gp);
        Some(lw)
    } else {
        None
    };
    let mut sc = Sc { b, node, tip, committed: BTreeSet::new(), outbox: vec![], reorged: false, trace: vec![], w, light };
    rep.count(if with_reorgs { "scenarios.with-reorgs" } else { "scenarios.linear" });
    if !check_wallet(&mut sc, rep, "genesis").await {
        return;
    }
    if fragmented {
        // a wallet made of several hundred small outputs (two payments of 150 outputs each): paying
        // most of the balance needs more inputs than a transaction can carry (255)
        rep.count("scenarios.fragmented-wallet");
        for payer in [2usize, 3] {
            let parent = sc.tip;
            let ledger = sc.b.store.ledger(&parent);
            let a = sc.b.actors[payer].clone();
            let big = match ledger.safe_owned_by(&a.pk, gp).into_iter().max_by_key(|o| o.amount) {
                Some(o) => o,
                None => return,
            };
            let mut outs: Vec<(PK, u64)> = (0..150u64).map(|j| (sc.b.actors[w].pk, 1_000 + j)).collect();
            let used: u64 = outs.iter().map(|(_, x)| *x).sum();
            if big.amount <= used + 100 {
                return;
            }
            outs.push((a.pk, big.amount - used - 100));
            let tx = build_tx(&a, &[big.clone()], &outs, sc.b.store.get(&parent).ts + 3, &[]);
            let id = sc.b.store.get(&parent).id + 1;
            let with_gt = !density_ok(&sc.b, &parent, false) || id % 2 == 0;
            let spec = BlockSpec { gap: 2 * sc.b.params.heartbeat, txs: vec![tx], with_gt, gt_miner: 2 };
            let h = match sc.b.extend(rng, &parent, &spec).await {
                Ok(h) => h,
                Err(_) => return,
            };
            let bytes = sc.b.store.get(&h).bytes.clone();
            if sc.node.add_bytes(&bytes).await != Some(Added::Ok(true)) {
                return;
            }
            sc.tip = h;
            sc.trace.push(format!("fragment-block{}", id));
            if !check_wallet(&mut sc, rep, "block").await {
                return;
            }
            if sc.light.is_some() && !check_light(&mut sc, rep, &h) {
                return;
            }
        }
    }
    for step in 0..steps {
        let op = rng.below(10);
        if op < 4 {
            let nft = rng.chance(1, 6);
            sc.trace.push(format!("{}@{}", if nft { "build-nft" } else { "build" }, sc.b.store.get(&sc.tip).id));
            if !(if nft { build_nft(&mut sc, rng, rep).await } else { build_spend(&mut sc, rng, rep).await }) {
                return;
            }
            if !check_wallet(&mut sc, rep, "build").await {
                return;
            }
        } else if op < 9 || !with_reorgs {
            let parent = sc.tip;
            let included: Vec<[u8; 59]> = sc.outbox.iter().flat_map(|t| t.from.iter().filter(|s| s.amount > 0).map(|s| ref_key(&s.public_key, s.block_id, s.tx_ordinal, s.slip_index, s.amount, s.slip_type as u8)).collect::<Vec<_>>()).collect();
            let h = match next_block(&mut sc, rng, rep, parent, true).await {
                Some(h) => h,
                None => return,
            };
            let bytes = sc.b.store.get(&h).bytes.clone();
            let r = crate::panics::catch_async(sc.node.add_bytes(&bytes)).await;
            match r {
                Ok(Some(Added::Ok(true))) => {}
                Ok(other) => {
                    rep.note(&format!("block refused by the wallet node: {:?}", other.map(|x| x.short())));
                    return;
                }
                Err(p) => {
                    rep.violation(&format!("C19|clause=wallet-panics-on-block|reorg={}|{}", sc.reorged, p.signature()), &format!("adding a block panicked: {} (trace {:?})", p.message, sc.trace.iter().rev().take(8).collect::<Vec<_>>()), json!({"kind":"wallet-ops","trace": sc.trace}));
                    return;
                }
            }
            sc.tip = h;
            for k in included {
                sc.committed.remove(&k);
            }
            let id = sc.b.store.get(&h).id;
            if id > gp + 1 {
                rep.count("blocks_after_window_wrapped");
            }
            sc.trace.push(format!("block{}", id));
            rep.count("blocks");
            if !check_wallet(&mut sc, rep, "block").await {
                return;
            }
            if sc.light.is_some() && !check_light(&mut sc, rep, &h) {
                return;
            }
        } else {
            // a reorganisation: two blocks on the parent of the tip (wallet spends / receipts of
            // the abandoned block are unwound)
            let parent = sc.b.store.get(&sc.tip).prev;
            if parent == [0; 32] {
                continue;
            }
            let mut cur = parent;
            for _ in 0..2 {
                match next_block(&mut sc, rng, rep, cur, false).await {
                    Some(h) => {
                        let bytes = sc.b.store.get(&h).bytes.clone();
                        let r = crate::panics::catch_async(sc.node.add_bytes(&bytes)).await;
                        if let Err(p) = r {
                            rep.violation(&format!("C19|clause=wallet-panics-on-block|reorg=true|{}", p.signature()), &format!("adding a block during a reorganisation panicked: {} (trace {:?})", p.message, sc.trace.iter().rev().take(8).collect::<Vec<_>>()), json!({"kind":"wallet-ops","trace": sc.trace}));
                            return;
                        }
                        cur = h;
                    }
                    None => return,
                }
            }
            if sc.node.tip().await.1 == cur {
                sc.tip = cur;
                sc.reorged = true;
                rep.count("reorgs");
                sc.trace.push(format!("reorg->{}", sc.b.store.get(&cur).id));
            }
            if !check_wallet(&mut sc, rep, "reorg").await {
                return;
            }
        }
        let _ = step;
    }
    rep.sample(json!({"gp": gp, "with_reorgs": with_reorgs, "ops": sc.trace.iter().take(40).collect::<Vec<_>>()}));
}

pub async fn run(ctx: &Ctx, rep: &mut Report) {
    let mut rng = ctx.rng();
    let rounds = ctx.scale(240, 2400) / ctx.shards.max(1) + 1;
    for r in 0..rounds {
        let gp = [4u64, 6, 10, 40][(r % 4) as usize];
        let with_reorgs = r % 3 == 2;
        let staking = r % 6 == 4;
        let fragmented = r % 8 == 3;
        scenario(&mut rng, rep, with_reorgs, if staking { gp.max(10) } else { gp }, if fragmented { 16 } else { 50 }, staking, fragmented).await;
    }
}
