//! C14 — the transaction pool stays consistent with the ledger and never loses or locks funds.
use std::collections::{BTreeMap, BTreeSet};
use std::ops::Deref;

use saito_core::core::consensus::block::Block;
use saito_core::core::consensus::mempool::Mempool;
use saito_core::core::consensus::transaction::Transaction;
use serde_json::json;

use crate::chain::{BlockSpec, Builder, RefLedger};
use crate::corpus::default_issuance;
use crate::history::density_ok;
use crate::props::Ctx;
use crate::report::Report;
use crate::rng::Rng;
use crate::world::*;

fn value_inputs(tx: &Transaction) -> Vec<[u8; 59]> {
    tx.from
        .iter()
        .filter(|s| s.amount > 0 && s.slip_type as u8 != 9)
        .map(|s| ref_key(&s.public_key, s.block_id, s.tx_ordinal, s.slip_index, s.amount, s.slip_type as u8))
        .collect()
}

struct World {
    b: Builder,
    node: LNode,
    tip: Hash,
    trace: Vec<String>,
    /// transactions submitted by the harness that are valid on the current tip and not yet
    /// confirmed (so the harness can replay / conflict with them)
    submitted: Vec<Transaction>,
}

impl World {
    fn log(&mut self, s: String) {
        self.trace.push(s);
        if self.trace.len() > 40 {
            self.trace.remove(0);
        }
    }
}

async fn pool_copy(node: &LNode) -> Mempool {
    let pool = node.mempool.read().await;
    let mut copy = Mempool::new(node.wallet.clone());
    copy.transactions = pool.transactions.clone();
    copy.utxo_map = pool.utxo_map.clone();
    copy
}

/// monitors 1-3 at a quiescent point
async fn check_pool(w: &mut World, rng: &mut Rng, rep: &mut Report, op: &str) -> bool {
    let gp = w.b.params.gp;
    let ledger: std::rc::Rc<RefLedger> = w.b.store.ledger(&w.tip);
    let witness = json!({"kind":"pool-ops","trace": w.trace});
    let (pooled, reserved): (Vec<Transaction>, BTreeSet<[u8; 59]>) = {
        let pool = w.node.mempool.read().await;
        (pool.transactions.values().cloned().collect(), pool.utxo_map.keys().cloned().collect())
    };
    rep.count("pool_checks");
    rep.max("pool_size", pooled.len() as u64);
    // 1. no two pooled transactions share a value-carrying input
    let mut by_input: BTreeMap<[u8; 59], usize> = BTreeMap::new();
    for tx in &pooled {
        for k in value_inputs(tx) {
            *by_input.entry(k).or_insert(0) += 1;
        }
    }
    if let Some((_, n)) = by_input.iter().find(|(_, n)| **n > 1) {
        rep.violation(
            &format!("C14|clause=conflicting-transactions-pooled|after={}", op),
            &format!("after {}: {} pooled transactions spend the same output (trace {:?})", op, n, w.trace.iter().rev().take(8).collect::<Vec<_>>()),
            witness.clone(),
        );
        return false;
    }
    // 2. every pooled transaction is still valid against the ledger
    for tx in &pooled {
        let next_id = ledger.tip_id + 1;
        let spent = value_inputs(tx).iter().any(|k| ledger.utxo.get(k).is_none());
        let expired = value_inputs(tx).iter().any(|k| ledger.utxo.get(k).map(|o| o.block_id < next_id.saturating_sub(gp)).unwrap_or(false));
        if spent || expired {
            let why = if spent { "spent" } else { "expired" };
            rep.violation(
                &format!("C14|clause=invalid-transaction-stays-pooled|why={}|after={}", why, op),
                &format!("after {}: a pooled transaction spends an output that is {} on the current chain (tip {}, gp {}; trace {:?})", op, why, ledger.tip_id, gp, w.trace.iter().rev().take(8).collect::<Vec<_>>()),
                witness.clone(),
            );
            return false;
        }
    }
    // 3. probe: an unspent output that no pooled transaction spends is spendable by a new tx
    let mut candidates: Vec<OutRef> = ledger
        .utxo
        .values()
        .filter(|o| o.slip_type == 0 && o.amount > 100 && o.block_id + gp > ledger.tip_id + 2 && !by_input.contains_key(&o.key()) && w.b.actors.iter().any(|a| a.pk == o.owner))
        .cloned()
        .collect();
    // prefer outputs that are still reserved although no pooled transaction spends them
    candidates.sort_by_key(|o| !reserved.contains(&o.key()));
    let reserved_free = candidates.iter().filter(|o| reserved.contains(&o.key())).count();
    rep.max("reserved_without_transaction", reserved_free as u64);
    let take = 3.min(candidates.len());
    if candidates.len() > take {
        let extra = candidates[take + rng.below((candidates.len() - take) as u64) as usize].clone();
        candidates.truncate(take);
        candidates.push(extra);
    }
    for o in candidates {
        let owner = w.b.actors.iter().find(|a| a.pk == o.owner).unwrap().clone();
        let tx = build_tx(&owner, &[o.clone()], &[(owner.pk, o.amount - 50)], w.b.store.get(&w.tip).ts + 11, b"probe");
        let mut copy = pool_copy(&w.node).await;
        {
            let chain = w.node.chain.read().await;
            copy.add_transaction_if_validates(tx.clone(), &chain).await;
        }
        rep.count("spend_probes");
        if !copy.transactions.contains_key(&tx.signature) {
            let was_reserved = reserved.contains(&o.key());
            rep.violation(
                &format!("C14|clause=unspent-output-not-spendable|reserved={}|after={}", was_reserved, op),
                &format!("after {}: an output of {} (amount {}, created {}-{}-{}) is unspent on the chain and spent by no pooled transaction, but a fresh valid spend is not admitted (reservation present: {}; trace {:?})", op, owner.name, o.amount, o.block_id, o.tx_ordinal, o.slip_index, was_reserved, w.trace.iter().rev().take(10).collect::<Vec<_>>()),
                witness.clone(),
            );
            return false;
        }
    }
    true
}

async fn scenario(rng: &mut Rng, rep: &mut Report, ops: usize) {
    let n = 5;
    let params = Params::with_gp(if rng.chance(1, 3) { 8 } else { 30 });
    let b = Builder::new(&params, n, &default_issuance(n)).await;
    // the node under test is actor 1 (its own blocks are created with that key)
    let mut node = LNode::new(&b.actors[1], &params);
    node.add_bytes(&b.store.get(&b.genesis).bytes.clone()).await;
    let tip = b.genesis;
    let mut w = World { b, node, tip, trace: vec![], submitted: vec![] };
    rep.count("scenarios");
    let hb = params.heartbeat;
    let mut force_short_bundle = false;
    let mut force_conflict = false;
    for step in 0..ops {
        let op = if force_short_bundle { 60 } else if force_conflict { 45 } else { rng.below(100) };
        force_conflict = false;
        let gp = params.gp;
        let ledger = w.b.store.ledger(&w.tip);
        let opname: String;
        if op < 40 {
            // ---- arrival of a valid transaction
            let from = rng.below(n as u64) as usize;
            let mut exclude: Vec<[u8; 59]> = {
                let pool = w.node.mempool.read().await;
                pool.transactions.values().flat_map(value_inputs).collect()
            };
            let two_inputs = rng.chance(1, 4);
            let tx = if two_inputs {
                let outs: Vec<OutRef> = ledger.safe_owned_by(&w.b.actors[from].pk, gp).into_iter().filter(|o| !exclude.contains(&o.key()) && o.slip_type == 0).take(2).collect();
                if outs.len() == 2 && outs[0].amount + outs[1].amount > 4_000 {
                    let a = w.b.actors[from].clone();
                    let total = outs[0].amount + outs[1].amount;
                    Some(build_tx(&a, &outs, &[(w.b.actors[(from + 1) % n].pk, total / 2), (a.pk, total / 2 - 500)], w.b.store.get(&w.tip).ts + 3 + step as u64, &[]))
                } else {
                    None
                }
            } else {
                // a routed arrival carries work for this node: its fee is sized against the work a
                // block needs a few seconds after the tip
                let routed = from != 1 && rng.chance(1, 2);
                let need = w.b.store.get(&w.tip).block.burnfee / 6_500;
                let (amt, fee) = if routed { (1 + rng.below(5000), (*rng.pick(&[need / 3, need, 2 * need, 6 * need])).max(50)) } else { (1 + rng.below(5000), 100 + rng.below(2000)) };
                let t = w.b.payment(rng, &w.tip.clone(), from, (from + 2) % n, amt, fee, &mut exclude);
                t.map(|mut t| {
                    if routed {
                        let (sender, node) = (w.b.actors[from].clone(), w.b.actors[1].clone());
                        add_path(&mut t, &sender, &[&node]);
                        rep.count("arrivals_routed_to_the_node");
                    }
                    t
                })
            };
            if let Some(tx) = tx {
                {
                    let chain = w.node.chain.read().await;
                    let mut pool = w.node.mempool.write().await;
                    pool.add_transaction_if_validates(tx.clone(), &chain).await;
                    let pooled = pool.transactions.contains_key(&tx.signature);
                    rep.count(if pooled { "arrivals_pooled" } else { "arrivals_refused" });
                    if !pooled {
                        let mut t2 = tx.clone();
                        t2.generate(&w.b.actors[1].pk, 0, 0);
                        let v = t2.validate(&chain.utxoset, &chain, true);
                        let reserved: Vec<bool> = t2.from.iter().map(|s| pool.utxo_map.contains_key(&s.utxoset_key)).collect();
                        let in_utxo: Vec<Option<bool>> = t2.from.iter().map(|s| chain.utxoset.get(&s.utxoset_key).cloned()).collect();
                        rep.note(&format!("refused arrival: validate={} reserved={:?} in_utxoset={:?} node_tip={} harness_tip={} inputs={:?}", v, reserved, in_utxo, chain.get_latest_block_id(), w.b.store.get(&w.tip).id, t2.from.iter().map(|s| (s.block_id, s.tx_ordinal, s.slip_index, s.amount)).collect::<Vec<_>>()));
                        rep.violation(
                            "C14|clause=valid-transaction-refused",
                            &format!("a valid transaction spending outputs that are unspent and not spent by any pooled transaction was not admitted (trace {:?})", w.trace.iter().rev().take(10).collect::<Vec<_>>()),
                            json!({"kind":"pool-ops","trace": w.trace, "tx_hex": hex::encode(tx.serialize_for_net())}),
                        );
                        return;
                    }
                }
                w.submitted.push(tx);
                opname = format!("arrival{}", if two_inputs { "-2in" } else { "" });
            } else {
                opname = "arrival-none".into();
            }
        } else if op < 50 {
            // ---- a conflicting arrival (spends an input of a pooled transaction) or a duplicate
            let pooled: Vec<Transaction> = { w.node.mempool.read().await.transactions.values().cloned().collect() };
            if let Some(victim) = pooled.iter().find(|t| !value_inputs(t).is_empty()) {
                let dup = rng.chance(1, 3);
                let tx = if dup {
                    victim.clone()
                } else {
                    let input = victim.from.iter().find(|s| s.amount > 0).unwrap();
                    let owner = w.b.actors.iter().find(|a| a.pk == input.public_key).unwrap().clone();
                    let o = OutRef { owner: owner.pk, amount: input.amount, block_id: input.block_id, tx_ordinal: input.tx_ordinal, slip_index: input.slip_index, slip_type: input.slip_type as u8 };
                    // half of the conflicts also spend an output nobody else spends, placed before
                    // or after the contested one
                    let taken: Vec<[u8; 59]> = pooled.iter().flat_map(value_inputs).collect();
                    let fresh = ledger.safe_owned_by(&owner.pk, gp).into_iter().find(|f| f.slip_type == 0 && f.amount > 100 && !taken.contains(&f.key()));
                    match fresh {
                        Some(f) if rng.chance(1, 2) => {
                            rep.count("conflicting_arrivals_with_an_uncontested_input");
                            let ins = if rng.chance(2, 3) { vec![f.clone(), o.clone()] } else { vec![o.clone(), f.clone()] };
                            build_tx(&owner, &ins, &[(owner.pk, o.amount + f.amount - 77)], w.b.store.get(&w.tip).ts + 5, b"conflict2")
                        }
                        _ => build_tx(&owner, &[o.clone()], &[(owner.pk, o.amount - 77)], w.b.store.get(&w.tip).ts + 5, b"conflict"),
                    }
                };
                let before = { w.node.mempool.read().await.transactions.len() };
                {
                    let chain = w.node.chain.read().await;
                    let mut pool = w.node.mempool.write().await;
                    pool.add_transaction_if_validates(tx.clone(), &chain).await;
                }
                let after = { w.node.mempool.read().await.transactions.len() };
                rep.count(if dup { "duplicate_arrivals" } else { "conflicting_arrivals" });
                if after != before {
                    rep.count("conflict_changed_pool_size");
                }
                opname = if dup { "duplicate".into() } else { "conflict".into() };
            } else {
                opname = "conflict-none".into();
            }
        } else if op < 72 {
            // ---- local bundle through Mempool::bundle_block
            let id = ledger.tip_id + 1;
            let need_gt = !density_ok(&w.b, &w.tip, false) || id % 2 == 0;
            let gt = if need_gt {
                let ticket = mine_gt(rng, w.tip, w.b.store.get(&w.tip).block.difficulty, &w.b.actors[1].pk);
                let mut t = gt_tx(&ticket, &w.b.actors[1]);
                t.generate(&w.b.actors[1].pk, 0, 0);
                Some(t)
            } else {
                None
            };
            // half of the attempts come a few seconds after the tip and go through the gate the
            // consensus thread uses (work cached in the pool against work needed at that time)
            let short_gap = force_short_bundle || rng.chance(1, 2);
            force_short_bundle = false;
            let ts = if short_gap { w.b.store.get(&w.tip).ts + 5_000 + rng.below(2 * hb - 5_050) } else { w.b.store.get(&w.tip).ts + 2 * hb + 6000 };
            let pool_before: BTreeSet<Vec<u8>> = { w.node.mempool.read().await.transactions.keys().map(|k| k.to_vec()).collect() };
            {
                let pool = w.node.mempool.read().await;
                let sum: u64 = pool.transactions.values().map(|t| t.total_work_for_me).sum();
                let cached = pool.get_routing_work_available();
                rep.count(if cached == sum { "bundle_attempts.cached-work-equals-pool-work" } else if cached > sum { "bundle_attempts.cached-work-above-pool-work" } else { "bundle_attempts.cached-work-below-pool-work" });
            }
            let bundled: Result<Option<Block>, crate::panics::PanicInfo> = {
                let cfg = w.node.cfg.read().await;
                let chain = w.node.chain.read().await;
                let mut pool = w.node.mempool.write().await;
                let open = if short_gap {
                    rep.count("bundle_attempts_at_short_gap");
                    pool.can_bundle_block(&chain, ts, &gt, cfg.deref(), &w.b.actors[1].pk).await.is_some()
                } else {
                    true
                };
                if open {
                    if short_gap {
                        rep.count("bundle_attempts_at_short_gap.gate-open");
                    }
                    crate::panics::catch_async(pool.bundle_block(&chain, ts, gt, cfg.deref(), &w.node.storage)).await
                } else {
                    Ok(None)
                }
            };
            match bundled {
                Err(p) => {
                    rep.violation(&format!("C14|clause=bundle-panics|{}", p.signature()), &format!("bundle_block panicked: {} (trace {:?})", p.message, w.trace.iter().rev().take(8).collect::<Vec<_>>()), json!({"kind":"pool-ops","trace": w.trace}));
                    return;
                }
                Ok(None) => {
                    rep.count("bundle_none");
                    let pool_after: BTreeSet<Vec<u8>> = { w.node.mempool.read().await.transactions.keys().map(|k| k.to_vec()).collect() };
                    if pool_after != pool_before {
                        rep.violation(
                            "C14|clause=failed-bundle-changed-pool",
                            &format!("bundle_block produced no block but the pool went from {} to {} transactions (trace {:?})", pool_before.len(), pool_after.len(), w.trace.iter().rev().take(10).collect::<Vec<_>>()),
                            json!({"kind":"pool-ops","trace": w.trace}),
                        );
                        return;
                    }
                    opname = "bundle-none".into();
                }
                Ok(Some(mut block)) if !short_gap && rng.chance(1, 5) => {
                    // the node's own block fails on addition (its burn fee is off by one, re-signed):
                    // the transactions go back to the pool, with their reservations
                    rep.count("own_blocks_made_to_fail");
                    block.burnfee += 1;
                    let me = w.b.actors[1].clone();
                    crate::props::c04::reseal(&mut block, &me, false);
                    let bytes = block_bytes(&block);
                    let r = w.node.add_bytes(&bytes).await;
                    if matches!(r, Some(Added::Ok(_))) {
                        rep.note("a block with a wrong burn fee was accepted by its own producer");
                        return;
                    }
                    let pool_after: BTreeSet<Vec<u8>> = { w.node.mempool.read().await.transactions.keys().map(|k| k.to_vec()).collect() };
                    let lost_normal = pool_before.iter().filter(|s| !pool_after.contains(*s)).count();
                    if lost_normal > 0 {
                        rep.count("failed_own_block_lost_pooled_transactions");
                    }
                    force_conflict = true;
                    opname = "own-block-failed".into();
                }
                Ok(Some(block)) => {
                    rep.count("bundles");
                    let in_block: BTreeSet<Vec<u8>> = block.transactions.iter().map(|t| t.signature.to_vec()).collect();
                    let bytes = block_bytes(&block);
                    let r = w.node.add_bytes(&bytes).await;
                    if r != Some(Added::Ok(true)) {
                        rep.violation(
                            "C14|clause=bundled-block-refused",
                            &format!("the block bundled from the pool ({} txs) is refused by the node itself: {:?} (trace {:?})", block.transactions.len(), r.map(|x| x.short()), w.trace.iter().rev().take(10).collect::<Vec<_>>()),
                            json!({"kind":"pool-ops","trace": w.trace, "block_hex": hex::encode(&bytes)}),
                        );
                        return;
                    }
                    let h = w.b.store.put_bytes(bytes, true, "own");
                    w.tip = h;
                    let pool_after: BTreeSet<Vec<u8>> = { w.node.mempool.read().await.transactions.keys().map(|k| k.to_vec()).collect() };
                    let expected: BTreeSet<Vec<u8>> = pool_before.difference(&in_block).cloned().collect();
                    if !pool_after.is_subset(&pool_before) || pool_after.intersection(&in_block).count() > 0 {
                        rep.violation("C14|clause=bundle-removed-wrong-set", &format!("after bundling, pool {:?} vs expected remainder {:?}", pool_after.len(), expected.len()), json!({"kind":"pool-ops","trace": w.trace}));
                        return;
                    }
                    let lost = pool_before.iter().filter(|s| !in_block.contains(*s) && !pool_after.contains(*s)).count();
                    if lost > 0 {
                        rep.count("bundle_dropped_unbundled_txs");
                    }
                    w.submitted.retain(|t| !in_block.contains(&t.signature.to_vec()));
                    opname = format!("bundle{}({})", if short_gap { "-short-gap" } else { "" }, block.transactions.len());
                }
            }
        } else if op < 92 {
            // ---- a block from a peer: confirms some pooled transactions, conflicts with others
            let pooled: Vec<Transaction> = { w.node.mempool.read().await.transactions.values().cloned().collect() };
            let mut txs: Vec<Transaction> = vec![];
            let mut used: Vec<[u8; 59]> = vec![];
            let mut kind = "peer";
            for t in pooled.iter().take(3) {
                match rng.below(3) {
                    0 => {
                        // confirm it
                        if value_inputs(t).iter().all(|k| !used.contains(k)) {
                            used.extend(value_inputs(t));
                            txs.push(t.clone());
                        }
                    }
                    1 => {
                        // conflict: spend ONE of its inputs differently
                        if let Some(input) = t.from.iter().find(|s| s.amount > 0) {
                            let k = ref_key(&input.public_key, input.block_id, input.tx_ordinal, input.slip_index, input.amount, input.slip_type as u8);
                            if !used.contains(&k) && ledger.utxo.contains_key(&k) {
                                let owner = w.b.actors.iter().find(|a| a.pk == input.public_key).unwrap().clone();
                                let o = ledger.utxo.get(&k).unwrap().clone();
                                used.push(k);
                                txs.push(build_tx(&owner, &[o.clone()], &[(w.b.actors[0].pk, o.amount / 2), (owner.pk, o.amount / 2 - 10)], w.b.store.get(&w.tip).ts + 9, b"peer-conflict"));
                                kind = "peer-conflict";
                                rep.count("peer_blocks_conflicting");
                            }
                        }
                    }
                    _ => {}
                }
            }
            let mut exclude = used.clone();
            exclude.extend(pooled.iter().flat_map(value_inputs));
            if let Some(t) = w.b.payment(rng, &w.tip.clone(), 0, 3, 10, 10, &mut exclude) {
                txs.push(t);
            }
            if txs.is_empty() {
                txs.push(build_tx(&w.b.actors[3], &[], &[], w.b.store.get(&w.tip).ts + 2, b"noop"));
            }
            let id = ledger.tip_id + 1;
            let with_gt = !density_ok(&w.b, &w.tip, false) || id % 2 == 0;
            let spec = BlockSpec { gap: 2 * hb + 100, txs, with_gt, gt_miner: 0 };
            match w.b.extend(rng, &w.tip.clone(), &spec).await {
                Ok(h) => {
                    let bytes = w.b.store.get(&h).bytes.clone();
                    let r = w.node.add_bytes(&bytes).await;
                    if r != Some(Added::Ok(true)) {
                        rep.note(&format!("peer block not accepted: {:?}", r));
                        return;
                    }
                    w.tip = h;
                    rep.count("peer_blocks");
                    if kind == "peer-conflict" && rng.chance(1, 2) {
                        force_short_bundle = true;
                    }
                    opname = kind.into();
                }
                Err(e) => {
                    rep.note(&format!("peer block not built: {}", &e[..e.len().min(100)]));
                    opname = "peer-none".into();
                }
            }
        } else {
            // ---- a short reorganisation: two peer blocks on the parent of the tip
            let parent = w.b.store.get(&w.tip).prev;
            if parent == [0; 32] {
                continue;
            }
            let mut cur = parent;
            let mut ok = true;
            for j in 0..2 {
                let mut exclude = vec![];
                let mut txs = vec![];
                if let Some(t) = w.b.payment(rng, &cur, 0, 4, 20 + j, 15, &mut exclude) {
                    txs.push(t);
                } else {
                    txs.push(build_tx(&w.b.actors[4], &[], &[], w.b.store.get(&cur).ts + 2, b"noop"));
                }
                let id = w.b.store.get(&cur).id + 1;
                let with_gt = !density_ok(&w.b, &cur, false) || id % 2 == 0;
                let spec = BlockSpec { gap: 2 * hb + 300 + j, txs, with_gt, gt_miner: 0 };
                match w.b.extend(rng, &cur, &spec).await {
                    Ok(h) => {
                        let bytes = w.b.store.get(&h).bytes.clone();
                        let _ = w.node.add_bytes(&bytes).await;
                        cur = h;
                    }
                    Err(_) => {
                        ok = false;
                        break;
                    }
                }
            }
            if ok && w.node.tip().await.1 == cur {
                w.tip = cur;
                rep.count("reorgs");
                opname = "reorg".into();
            } else {
                let t = w.node.tip().await.1;
                if w.b.store.has(&t) {
                    w.tip = t;
                }
                opname = "reorg-failed".into();
            }
        }
        w.log(opname.clone());
        rep.eval();
        rep.count("pool_ops");
        rep.nontrivial(&format!("{}|{}|{:?}", step, opname, w.trace.iter().rev().take(4).collect::<Vec<_>>()));
        if !opname.ends_with("none") && !check_pool(&mut w, rng, rep, opname.split('(').next().unwrap_or("op")).await {
            return;
        }
    }
    rep.sample(json!({"ops": w.trace}));
}

pub async fn run(ctx: &Ctx, rep: &mut Report) {
    let mut rng = ctx.rng();
    let scenarios = ctx.scale(200, 2400) / ctx.shards.max(1) + 1;
    for _ in 0..scenarios {
        scenario(&mut rng, rep, 60).await;
    }
}
