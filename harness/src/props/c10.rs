//! C10 — decoders are total: every byte string yields Ok or Err, never a panic, and the peak
//! allocation during a call stays within 32·len + 16 KiB.
use saito_core::core::consensus::block::Block;
use saito_core::core::consensus::golden_ticket::GoldenTicket;
use saito_core::core::consensus::hop::Hop;
use saito_core::core::consensus::peers::peer_service::PeerService;
use saito_core::core::consensus::slip::Slip;
use saito_core::core::consensus::transaction::Transaction;
use saito_core::core::consensus::wallet::Wallet;
use saito_core::core::msg::block_request::BlockchainRequest;
use saito_core::core::msg::handshake::{HandshakeChallenge, HandshakeResponse};
use saito_core::core::msg::message::Message;
use saito_core::core::process::version::Version;
use saito_core::core::util::balance_snapshot::BalanceSnapshot;
use saito_core::core::util::serialize::Serialize;
use serde_json::json;

use crate::alloc;
use crate::corpus::{self, Corpus};
use crate::panics::{self, PanicInfo};
use crate::props::Ctx;
use crate::report::Report;
use crate::rng::Rng;
use crate::world::*;

#[derive(Clone, Copy, Debug, PartialEq, Eq)]
pub enum Dec {
    Tx,
    Block,
    Msg,
    Slip,
    Hop,
    Challenge,
    Response,
    ChainReq,
    Version,
    Services,
    GoldenTicket,
    WalletDisk,
    Snapshot,
}

pub const ALL: [Dec; 13] = [
    Dec::Tx,
    Dec::Block,
    Dec::Msg,
    Dec::Slip,
    Dec::Hop,
    Dec::Challenge,
    Dec::Response,
    Dec::ChainReq,
    Dec::Version,
    Dec::Services,
    Dec::GoldenTicket,
    Dec::WalletDisk,
    Dec::Snapshot,
];

impl Dec {
    pub fn name(&self) -> &'static str {
        match self {
            Dec::Tx => "Transaction::deserialize_from_net",
            Dec::Block => "Block::deserialize_from_net",
            Dec::Msg => "Message::deserialize",
            Dec::Slip => "Slip::deserialize_from_net",
            Dec::Hop => "Hop::deserialize_from_net",
            Dec::Challenge => "HandshakeChallenge::deserialize",
            Dec::Response => "HandshakeResponse::deserialize",
            Dec::ChainReq => "BlockchainRequest::deserialize",
            Dec::Version => "Version::deserialize",
            Dec::Services => "PeerService::deserialize_services",
            Dec::GoldenTicket => "GoldenTicket::deserialize_from_net",
            Dec::WalletDisk => "Wallet::deserialize_from_disk",
            Dec::Snapshot => "BalanceSnapshot::try_from",
        }
    }
    pub fn from_name(n: &str) -> Option<Dec> {
        ALL.iter().copied().find(|d| d.name() == n)
    }
}

pub enum Outcome {
    Ok,
    Err,
    Panic(PanicInfo),
}

/// one decoder call under catch_unwind with the allocation counter armed
pub fn call(dec: Dec, bytes: &[u8]) -> (Outcome, usize) {
    let input = bytes.to_vec();
    // (the witness copy outlives the decoder call: `input` itself is moved into the closure)
    let witness = bytes.to_vec();
    alloc::set_current(ALL.iter().position(|d| *d == dec).unwrap_or(99), witness.as_ptr(), witness.len());
    let base = alloc::arm();
    let r = panics::catch(move || -> bool {
        match dec {
            Dec::Tx => Transaction::deserialize_from_net(&input).is_ok(),
            Dec::Block => Block::deserialize_from_net(&input).is_ok(),
            Dec::Msg => Message::deserialize(input).is_ok(),
            Dec::Slip => Slip::deserialize_from_net(&input).is_ok(),
            Dec::Hop => Hop::deserialize_from_net(&input).is_ok(),
            Dec::Challenge => HandshakeChallenge::deserialize(&input).is_ok(),
            Dec::Response => HandshakeResponse::deserialize(&input).is_ok(),
            Dec::ChainReq => BlockchainRequest::deserialize(&input).is_ok(),
            Dec::Version => Version::deserialize(&input).is_ok(),
            Dec::Services => PeerService::deserialize_services(input).is_ok(),
            Dec::GoldenTicket => {
                let _ = GoldenTicket::deserialize_from_net(&input);
                true
            }
            Dec::WalletDisk => {
                let mut w = Wallet::new([1; 32], [2; 33]);
                w.deserialize_from_disk(&input);
                true
            }
            Dec::Snapshot => match String::from_utf8(input) {
                Ok(s) => BalanceSnapshot::try_from(s).is_ok(),
                Err(_) => false,
            },
        }
    });
    alloc::disarm();
    alloc::set_current(99, std::ptr::null(), 0);
    drop(witness);
    let peak = alloc::peak_above(base);
    match r {
        Ok(true) => (Outcome::Ok, peak),
        Ok(false) => (Outcome::Err, peak),
        Err(p) => (Outcome::Panic(p), peak),
    }
}

pub struct Seed {
    pub dec: Dec,
    pub name: String,
    pub bytes: Vec<u8>,
    /// offsets of big-endian u32 length / count fields
    pub counts: Vec<usize>,
    /// offsets of enum tag bytes
    pub tags: Vec<usize>,
}

fn tx_fields(base: usize, tx: &Transaction) -> (Vec<usize>, Vec<usize>) {
    let counts = vec![base, base + 4, base + 8, base + 12];
    let mut tags = vec![base + 92];
    let nslips = tx.from.len() + tx.to.len();
    for i in 0..nslips.min(3) {
        tags.push(base + 93 + i * 59 + 58);
    }
    (counts, tags)
}

pub fn seeds(rng: &mut Rng, c: &Corpus) -> Vec<Seed> {
    let mut v = vec![];
    // transactions: one per shape class
    let mut shapes = std::collections::BTreeSet::new();
    for tx in &c.txs {
        let shape = (
            tx.transaction_type as u8,
            tx.from.len().min(3),
            tx.to.len().min(3),
            tx.path.len().min(3),
            (tx.data.len() > 0) as u8,
        );
        if shapes.insert(shape) {
            let (counts, tags) = tx_fields(0, tx);
            v.push(Seed {
                dec: Dec::Tx,
                name: format!("tx-{:?}-{}in-{}out-{}hop-{}B", tx.transaction_type, tx.from.len(), tx.to.len(), tx.path.len(), tx.data.len()),
                bytes: tx.serialize_for_net(),
                counts,
                tags,
            });
        }
    }
    // blocks: genesis, smallest and largest non-genesis
    let mut idx: Vec<usize> = (0..c.blocks.len()).collect();
    idx.sort_by_key(|i| c.blocks[*i].transactions.len());
    let mut chosen = vec![0usize];
    if idx.len() > 1 {
        chosen.push(idx[0]);
        chosen.push(idx[idx.len() - 1]);
        chosen.push(idx[idx.len() / 2]);
    }
    chosen.dedup();
    for i in chosen {
        let b = &c.blocks[i];
        let mut counts = vec![0];
        let mut tags = vec![];
        if let Some(tx) = b.transactions.first() {
            let (cs, ts) = tx_fields(389, tx);
            counts.extend(cs);
            tags.extend(ts);
        }
        v.push(Seed {
            dec: Dec::Block,
            name: format!("block-{}-{}tx", b.id, b.transactions.len()),
            bytes: block_bytes(b),
            counts,
            tags,
        });
    }
    // messages of every tag
    for (name, bytes) in corpus::messages(rng, c) {
        let mut counts = vec![];
        let mut tags = vec![0];
        match bytes[0] {
            2 => counts.push(1 + 138),
            3 => {
                counts.extend([1, 1 + 389, 1 + 393, 1 + 397, 1 + 401]);
                tags.push(1 + 389 + 92);
            }
            4 => {
                counts.extend([1, 5, 9, 13]);
                tags.push(93);
            }
            10 => counts.push(1 + 32),
            12 | 13 | 14 => counts.push(1),
            _ => {}
        }
        v.push(Seed {
            dec: Dec::Msg,
            name: format!("msg-{}-{}", bytes[0], name),
            bytes,
            counts,
            tags,
        });
    }
    // small fixed formats
    let a = &c.builder.actors;
    let slip = corpus::sample_slip(rng, &a[1].pk);
    v.push(Seed { dec: Dec::Slip, name: "slip".into(), bytes: slip.serialize_for_net(), counts: vec![], tags: vec![58] });
    if let Some(tx) = c.txs.iter().find(|t| !t.path.is_empty()) {
        v.push(Seed { dec: Dec::Hop, name: "hop".into(), bytes: tx.path[0].serialize_for_net(), counts: vec![], tags: vec![] });
    }
    v.push(Seed { dec: Dec::Challenge, name: "challenge".into(), bytes: rng.bytes(32), counts: vec![], tags: vec![] });
    let ch = rng.hash32();
    v.push(Seed {
        dec: Dec::Response,
        name: "response".into(),
        bytes: corpus::handshake_response(&a[1], &ch, "http://x.example:1", false, 2).serialize(),
        counts: vec![138],
        tags: vec![137],
    });
    v.push(Seed { dec: Dec::ChainReq, name: "chainreq".into(), bytes: rng.bytes(72), counts: vec![], tags: vec![] });
    v.push(Seed { dec: Dec::Version, name: "version".into(), bytes: vec![1, 2, 0, 3], counts: vec![], tags: vec![] });
    v.push(Seed {
        dec: Dec::Services,
        name: "services".into(),
        bytes: PeerService::serialize_services(&corpus::services(3)),
        counts: vec![],
        tags: vec![],
    });
    if let Some(gt) = c.tx_of_type(saito_core::core::consensus::transaction::TransactionType::GoldenTicket) {
        v.push(Seed { dec: Dec::GoldenTicket, name: "goldenticket".into(), bytes: gt.data.clone(), counts: vec![], tags: vec![] });
    }
    v.push(Seed {
        dec: Dec::WalletDisk,
        name: "wallet".into(),
        bytes: Wallet::new(a[1].sk, a[1].pk).serialize_for_disk(),
        counts: vec![],
        tags: vec![],
    });
    {
        use saito_core::core::defs::PrintForLog;
        let text = format!(
            "{}-{}-{}.snap\n{} 3 1 0 5000\n{} 4 0 1 77\n",
            T0,
            7,
            hex::encode(rng.hash32()),
            a[1].pk.to_base58(),
            a[2].pk.to_base58()
        );
        v.push(Seed { dec: Dec::Snapshot, name: "snapshot".into(), bytes: text.into_bytes(), counts: vec![], tags: vec![] });
    }
    v
}

struct Judge<'a> {
    rep: &'a mut Report,
}

impl<'a> Judge<'a> {
    fn judge(&mut self, seed: &Seed, class: &str, pos: usize, val: u64, input: &[u8]) {
        let (outcome, peak) = call(seed.dec, input);
        self.rep.eval();
        self.rep.count(&format!("calls.{}", seed.dec.name()));
        self.rep.count(&format!("class.{}", class));
        let okind = match &outcome {
            Outcome::Ok => "ok",
            Outcome::Err => "err",
            Outcome::Panic(_) => "panic",
        };
        self.rep.count(&format!("outcome.{}", okind));
        // non-trivial: a malformed input that is not simply the intact seed
        if input != seed.bytes.as_slice() {
            self.rep.nontrivial(&format!("{}|{}|{}|{}|{}", seed.dec.name(), seed.name, class, pos, val));
        }
        let bound = 32 * input.len() + 16 * 1024;
        let ratio_x100 = (peak as u64 * 100) / (input.len().max(1) as u64);
        if input.len() >= 64 {
            self.rep.max("alloc_peak_over_len_x100", ratio_x100);
        }
        self.rep.max("alloc_peak_bytes", peak as u64);
        if let Outcome::Panic(p) = &outcome {
            if panics::is_harness_panic(p) {
                self.rep.inconclusive(&format!("harness panic: {}", p.message));
                return;
            }
            let sig = format!(
                "C10|decoder={}|panic={}|{}",
                seed.dec.name(),
                p.rel_file(),
                p.masked_message()
            );
            self.rep.violation(
                &sig,
                &format!("{} panicked at {}:{}: {}", seed.dec.name(), p.rel_file(), p.line, p.message),
                json!({"kind":"decode","decoder":seed.dec.name(),"seed":seed.name,"class":class,"pos":pos,"val":val,"input_hex":hex::encode(input)}),
            );
        } else if peak > bound {
            let sig = format!("C10|decoder={}|alloc-bound", seed.dec.name());
            self.rep.violation(
                &sig,
                &format!("peak allocation {} > bound {} for input of {} bytes", peak, bound, input.len()),
                json!({"kind":"decode","decoder":seed.dec.name(),"seed":seed.name,"class":class,"pos":pos,"val":val,"input_hex":hex::encode(input)}),
            );
        }
    }
}

/// corpus for the Miri slice: "<decoder>\t<hex>" lines - intact encodings, truncations, hostile
/// count fields and tag bytes of every seed encoding
pub async fn dump_corpus(seed: u64, path: &str) -> usize {
    let mut crng = Rng::new(seed ^ 0xC10);
    let corpus = Corpus::build(&mut crng, &Params::with_gp(100), 8).await;
    let seeds = seeds(&mut crng, &corpus);
    let mut out = String::new();
    let mut n = 0;
    let push = |dec: Dec, bytes: &[u8], out: &mut String| {
        out.push_str(dec.name());
        out.push('\t');
        out.push_str(&hex::encode(bytes));
        out.push('\n');
    };
    for s in &seeds {
        // keep the interpreter's work bounded: big blocks only intact and cut
        let small = s.bytes.len() <= 1200;
        push(s.dec, &s.bytes, &mut out);
        n += 1;
        let len = s.bytes.len();
        let mut cuts = vec![0, 1, len / 4, len / 2, len.saturating_sub(1)];
        cuts.extend(s.counts.iter().map(|c| c + 2));
        cuts.sort();
        cuts.dedup();
        for c in cuts.into_iter().filter(|c| *c < len).take(if small { 9 } else { 3 }) {
            push(s.dec, &s.bytes[..c], &mut out);
            n += 1;
        }
        if small {
            for off in s.counts.iter().take(4) {
                for val in [0u32, 1, 0xffff, 0xffff_ffff] {
                    let mut b = s.bytes.clone();
                    if off + 4 <= b.len() {
                        b[*off..*off + 4].copy_from_slice(&val.to_be_bytes());
                        push(s.dec, &b, &mut out);
                        n += 1;
                    }
                }
            }
            for off in s.tags.iter().take(3) {
                for val in [0u8, 9, 255] {
                    let mut b = s.bytes.clone();
                    if *off < b.len() {
                        b[*off] = val;
                        push(s.dec, &b, &mut out);
                        n += 1;
                    }
                }
            }
        }
    }
    std::fs::write(path, out).expect("write corpus");
    n
}

pub async fn run(ctx: &Ctx, rep: &mut Report) {
    // a single allocation request of more than 1 GiB made by a decoder is reported by the
    // allocator itself (witness file + exit code 97, turned into a violation by bin/check): the
    // system may not be able to serve it, and the abort that follows cannot be caught
    alloc::set_hard_cap(1 << 30, &format!("/verif/out/C10-alloc-{}.bin", std::process::id()));
    if let Some(path) = &ctx.replay {
        replay(path, rep);
        return;
    }
    let mut rng = ctx.rng();
    // the corpus itself is the same for all shards of a seed (work is split by index below)
    let mut crng = Rng::new(ctx.seed ^ 0xC10);
    let corpus = Corpus::build(&mut crng, &Params::with_gp(100), 8).await;
    let seeds = seeds(&mut crng, &corpus);
    rep.add("seed_encodings", seeds.len() as u64);
    let mut j = Judge { rep };
    let mut work: u64 = 0;
    for seed in &seeds {
        // the intact encoding must decode
        if ctx.mine(work) {
            j.judge(seed, "intact", 0, 0, &seed.bytes);
        }
        work += 1;
        // every truncation
        let n = seed.bytes.len();
        for len in 0..n {
            // long encodings: every length in the first 700 bytes and the last 200, every 7th between
            if n > 1200 && len > 700 && len < n - 200 && len % 7 != 0 && !ctx.thorough {
                continue;
            }
            if ctx.mine(work) {
                j.judge(seed, "truncation", len, 0, &seed.bytes[..len]);
            }
            work += 1;
        }
        // one extra trailing byte / 64 trailing bytes
        for extra in [1usize, 64] {
            if ctx.mine(work) {
                let mut b = seed.bytes.clone();
                b.extend(std::iter::repeat(0xAB).take(extra));
                j.judge(seed, "trailing", extra, 0, &b);
            }
            work += 1;
        }
        // count / length fields at boundary values
        for off in &seed.counts {
            if off + 4 > n {
                continue;
            }
            let actual = u32::from_be_bytes(seed.bytes[*off..off + 4].try_into().unwrap());
            let vals = [
                0u32,
                1,
                2,
                254,
                255,
                256,
                257,
                65_535,
                65_536,
                1 << 24,
                (1 << 31) - 1,
                1 << 31,
                u32::MAX - 1,
                u32::MAX,
                actual.wrapping_add(1),
                actual.wrapping_sub(1),
                (n as u32).wrapping_add(1),
                72_796_055, // 2^32 / 59 rounded up: slip-size multiplication wraps on 32 bit
                33_038_210, // 2^32 / 130
            ];
            for val in vals {
                if ctx.mine(work) {
                    let mut b = seed.bytes.clone();
                    b[*off..off + 4].copy_from_slice(&val.to_be_bytes());
                    j.judge(seed, "count-field", *off, val as u64, &b);
                }
                work += 1;
            }
        }
        // tag bytes: all 256 values
        for off in &seed.tags {
            if *off >= n {
                continue;
            }
            for val in 0..=255u8 {
                if ctx.mine(work) {
                    let mut b = seed.bytes.clone();
                    b[*off] = val;
                    j.judge(seed, "tag-byte", *off, val as u64, &b);
                }
                work += 1;
            }
        }
    }
    // random mutations and random strings (seeded per shard)
    let rounds = ctx.scale(4_000, 200_000) / ctx.shards.max(1);
    for i in 0..rounds {
        let seed = &seeds[rng.below(seeds.len() as u64) as usize];
        let mut b = seed.bytes.clone();
        match rng.below(4) {
            0 => {
                // flip 1..4 bytes
                for _ in 0..=rng.below(4) {
                    if !b.is_empty() {
                        let p = rng.below(b.len() as u64) as usize;
                        b[p] = rng.below(256) as u8;
                    }
                }
                j.judge(seed, "byte-flip", i as usize, 0, &b);
            }
            1 => {
                // truncate and flip
                let len = rng.below(b.len() as u64 + 1) as usize;
                b.truncate(len);
                if !b.is_empty() {
                    let p = rng.below(b.len() as u64) as usize;
                    b[p] ^= 1 << rng.below(8);
                }
                j.judge(seed, "truncate-flip", i as usize, 0, &b);
            }
            2 => {
                // splice two encodings
                let other = &seeds[rng.below(seeds.len() as u64) as usize];
                let cut = rng.below(b.len() as u64 + 1) as usize;
                b.truncate(cut);
                let ocut = rng.below(other.bytes.len() as u64 + 1) as usize;
                b.extend_from_slice(&other.bytes[ocut..]);
                j.judge(seed, "splice", i as usize, 0, &b);
            }
            _ => {
                let len = rng.below(700) as usize;
                let mut r = rng.bytes(len);
                // keep the leading tag plausible for Message so that inner decoders are reached
                if seed.dec == Dec::Msg && !r.is_empty() {
                    r[0] = (rng.below(16)) as u8;
                }
                j.judge(seed, "random", i as usize, 0, &r);
            }
        }
    }
    let floor = 200;
    for d in ALL {
        let n = j.rep.get(&format!("calls.{}", d.name()));
        if n * ctx.shards < floor && n > 0 {
            j.rep.note(&format!("decoder {} saw only {} inputs in this shard", d.name(), n));
        }
    }
    j.rep.sample(json!({"decoder":"Transaction::deserialize_from_net","class":"truncation","example":"first 120 bytes of a 1-in/2-out transaction"}));
    for s in seeds.iter().take(4) {
        j.rep.sample(json!({"seed":s.name,"decoder":s.dec.name(),"len":s.bytes.len(),"count_field_offsets":s.counts,"tag_offsets":s.tags,"hex_prefix":hex::encode(&s.bytes[..s.bytes.len().min(48)])}));
    }
}

fn replay(path: &str, rep: &mut Report) {
    let text = std::fs::read_to_string(path).expect("replay file");
    let v: serde_json::Value = serde_json::from_str(&text).expect("replay json");
    let r = &v["replay"];
    let dec = Dec::from_name(r["decoder"].as_str().unwrap_or("")).expect("decoder");
    let input = hex::decode(r["input_hex"].as_str().unwrap_or("")).expect("hex");
    let (outcome, peak) = call(dec, &input);
    rep.eval();
    match outcome {
        Outcome::Panic(p) => rep.violation(
            &format!("C10|decoder={}|panic={}|{}", dec.name(), p.rel_file(), p.masked_message()),
            &format!("replayed: panic at {}:{}: {}", p.rel_file(), p.line, p.message),
            r.clone(),
        ),
        _ => {
            if peak > 32 * input.len() + 16 * 1024 {
                rep.violation(&format!("C10|decoder={}|alloc-bound", dec.name()), "replayed: allocation bound", r.clone());
            } else {
                rep.note("replay: decoder returned normally");
            }
        }
    }
}
