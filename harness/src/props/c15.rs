//! C15 — a node that syncs from an honest peer converges to the peer's chain; the common-ancestor
//! estimate derived from the fork id is never later than the true fork point.
//! (1) pure part: chain pairs of any shape (built cheaply from ghost blocks so that the fork-id
//! checkpoints up to 185 150 blocks back are crossed) — estimate <= true fork point, both roles.
//! (2) system part: two full nodes over an in-memory wire; real handshake, chain request, header
//! hashes, block fetches served from the peer, verification, addition; the scheduler explores the
//! order of message deliveries, queue steps and fetch completions.
use std::collections::{BTreeMap, BTreeSet, VecDeque};

use saito_core::core::consensus::blockchain::Blockchain;
use saito_core::core::consensus::wallet::Wallet;
use saito_core::core::io::network_event::NetworkEvent;
use saito_core::core::util::configuration::PeerConfig;
use saito_core::core::util::crypto::hash;
use serde_json::json;
use std::sync::Arc;

use crate::chain::{BlockSpec, Builder};
use crate::corpus::default_issuance;
use crate::io::{FetchReq, MemIo, OutMsg};
use crate::node::{Node, Queue};
use crate::props::Ctx;
use crate::report::Report;
use crate::rng::Rng;
use crate::world::*;

// ------------------------------------------------------------------ pure part

fn ghost_hash(tag: u8, id: u64) -> Hash {
    hash(&[&[tag][..], &id.to_be_bytes()[..]].concat())
}

/// a chain of `prefix` shared blocks followed by `suffix` own blocks, as ghost blocks
fn ghost_chain(gp: u64, prefix: u64, suffix: u64, tag: u8) -> Blockchain {
    let all = actors(2);
    let wallet = Arc::new(RwLock::new(Wallet::new(all[0].sk, all[0].pk)));
    let mut chain = Blockchain::new(wallet, gp, 0, 60);
    let mut prev = [0u8; 32];
    for id in 1..=(prefix + suffix) {
        let h = if id <= prefix { ghost_hash(0, id) } else { ghost_hash(tag, id) };
        chain.add_ghost_block(id, prev, T0 + id * 1000, [0; 32], false, h);
        prev = h;
    }
    chain
}

fn true_fork_point(a: &Blockchain, b: &Blockchain) -> u64 {
    let top = a.get_latest_block_id().min(b.get_latest_block_id());
    let mut fp = 0;
    for id in 1..=top {
        let x = a.blockring.get_longest_chain_block_hash_at_block_id(id);
        let y = b.blockring.get_longest_chain_block_hash_at_block_id(id);
        if x.is_some() && x == y {
            fp = id;
        } else {
            break;
        }
    }
    fp
}

fn pure_case(gp: u64, prefix: u64, mine_suffix: u64, peer_suffix: u64, rep: &mut Report) {
    let mine = ghost_chain(gp, prefix, mine_suffix, 1);
    let peer = ghost_chain(gp, prefix, peer_suffix, 2);
    let fp = true_fork_point(&mine, &peer);
    for (resp, req, role) in [(&mine, &peer, "a"), (&peer, &mine, "b")] {
        let req_id = req.get_latest_block_id();
        let fid = match crate::panics::catch(|| req.generate_fork_id(req_id)) {
            Ok(f) => f.unwrap_or([0; 32]),
            Err(p) => {
                rep.violation(&format!("C15|clause=fork-id-panics|{}", p.signature()), &format!("generate_fork_id({}) panicked: {}", req_id, p.message), json!({"kind":"pure","gp":gp,"prefix":prefix,"mine":mine_suffix,"peer":peer_suffix}));
                continue;
            }
        };
        let est = match crate::panics::catch(|| resp.generate_last_shared_ancestor(req_id, fid)) {
            Ok(e) => e,
            Err(p) => {
                rep.violation(&format!("C15|clause=shared-ancestor-panics|{}", p.signature()), &format!("generate_last_shared_ancestor({}, ..) panicked: {}", req_id, p.message), json!({"kind":"pure","gp":gp,"prefix":prefix,"mine":mine_suffix,"peer":peer_suffix}));
                continue;
            }
        };
        rep.eval();
        rep.count("pure_estimates");
        rep.count(if req_id >= resp.get_latest_block_id() { "pure.requester-ahead-or-level" } else { "pure.requester-behind" });
        if est == 0 {
            rep.count("pure.estimate-zero");
        } else if est == fp {
            rep.count("pure.estimate-exact");
        } else if est < fp {
            rep.count("pure.estimate-early");
            rep.max("pure_estimate_blocks_early", fp - est);
        }
        rep.max("pure_chain_length", req_id.max(resp.get_latest_block_id()));
        if est > fp {
            rep.violation(
                "C15|clause=shared-ancestor-estimate-after-fork-point",
                &format!("chains share blocks 1..{} (responder length {}, requester length {}): the responder estimates the last shared ancestor as {} and would start streaming after the fork point, skipping {} needed block(s)", fp, resp.get_latest_block_id(), req_id, est, est - fp),
                json!({"kind":"pure","gp":gp,"prefix":prefix,"mine":mine_suffix,"peer":peer_suffix,"role":role}),
            );
        }
        rep.nontrivial(&format!("pure|{}|{}|{}|{}", prefix, mine_suffix, peer_suffix, role));
    }
}

// ------------------------------------------------------------------ system part

#[derive(Clone, Debug, PartialEq, Eq)]
enum Act {
    ToP,
    ToA,
    StepA(u8),
    StepP(u8),
    /// complete the i-th outstanding fetch of A
    Fetch(usize),
    Tick,
}

fn peer_cfg(port: u16) -> PeerConfig {
    PeerConfig { host: "127.0.0.1".to_string(), port, protocol: "http".to_string(), synctype: "full".to_string() }
}

const A_SEES_P: u64 = 1;
const P_SEES_A: u64 = 10;

struct Pair {
    a: Node,
    p: Node,
    to_p: VecDeque<Vec<u8>>,
    to_a: VecDeque<Vec<u8>>,
    fetches: Vec<FetchReq>,
    requested: BTreeSet<Hash>,
    trace: Vec<String>,
    /// completions that arrived before the completion of a lower block of the same chain
    out_of_order_completions: u64,
    last_completed_id: u64,
}

fn q_of(n: u8) -> Queue {
    match n {
        0 => Queue::Verify,
        1 => Queue::Consensus,
        _ => Queue::Router,
    }
}

impl Pair {
    fn collect(&mut self) {
        for m in self.a.io.take_outbox() {
            match m {
                OutMsg::To(i, b) if i == A_SEES_P => self.to_p.push_back(b),
                OutMsg::All(b, except) if !except.contains(&A_SEES_P) => self.to_p.push_back(b),
                _ => {}
            }
        }
        for m in self.p.io.take_outbox() {
            match m {
                OutMsg::To(i, b) if i == P_SEES_A => self.to_a.push_back(b),
                OutMsg::All(b, except) if !except.contains(&P_SEES_A) => self.to_a.push_back(b),
                _ => {}
            }
        }
        for f in self.a.io.take_fetches() {
            self.requested.insert(f.hash);
            self.fetches.push(f);
        }
        // the peer may ask for A's blocks too; they are not served (A is the one catching up)
        let _ = self.p.io.take_fetches();
        for n in [&self.a, &self.p] {
            let _ = n.io.take_events();
            let _ = n.io.take_connects();
            let _ = n.io.take_disconnects();
        }
    }

    fn enabled(&mut self) -> Vec<Act> {
        let mut v = vec![];
        if !self.to_p.is_empty() {
            v.push(Act::ToP);
        }
        if !self.to_a.is_empty() {
            v.push(Act::ToA);
        }
        for q in self.a.pending() {
            v.push(Act::StepA(match q {
                Queue::Verify => 0,
                Queue::Consensus => 1,
                _ => 2,
            }));
        }
        for q in self.p.pending() {
            v.push(Act::StepP(match q {
                Queue::Verify => 0,
                Queue::Consensus => 1,
                _ => 2,
            }));
        }
        for i in 0..self.fetches.len().min(6) {
            v.push(Act::Fetch(i));
        }
        v
    }

    async fn apply(&mut self, act: &Act, b: &Builder) -> Result<(), (String, crate::panics::PanicInfo)> {
        self.trace.push(format!("{:?}", act));
        let r = match act {
            Act::ToP => {
                let m = self.to_p.pop_front().unwrap();
                self.p.net(NetworkEvent::IncomingNetworkMessage { peer_index: P_SEES_A, buffer: m }).await.map_err(|e| ("peer:message".to_string(), e))
            }
            Act::ToA => {
                let m = self.to_a.pop_front().unwrap();
                self.a.net(NetworkEvent::IncomingNetworkMessage { peer_index: A_SEES_P, buffer: m }).await.map_err(|e| ("node:message".to_string(), e))
            }
            Act::StepA(q) => self.a.step(q_of(*q)).await.map(|_| ()).map_err(|e| (format!("node:queue-{}", q), e)),
            Act::StepP(q) => self.p.step(q_of(*q)).await.map(|_| ()).map_err(|e| (format!("peer:queue-{}", q), e)),
            Act::Fetch(i) => {
                let f = self.fetches.remove(*i);
                // served by the peer if (and only if) it holds the block
                let held = { self.p.chain.read().await.blocks.contains_key(&f.hash) };
                if held && b.store.has(&f.hash) {
                    let s = b.store.get(&f.hash);
                    // a block handed to the node while a lower one is still on its way (or after a
                    // higher one) reaches add_block before its parent
                    if s.id < self.last_completed_id || self.fetches.iter().any(|o| o.block_id < f.block_id) {
                        self.out_of_order_completions += 1;
                    }
                    self.last_completed_id = self.last_completed_id.max(s.id);
                    let bytes = s.bytes.clone();
                    self.a.net(NetworkEvent::BlockFetched { block_hash: f.hash, block_id: f.block_id, peer_index: f.peer, buffer: bytes }).await.map_err(|e| ("node:block-fetched".to_string(), e))
                } else {
                    self.a.net(NetworkEvent::BlockFetchFailed { block_hash: f.hash, peer_index: f.peer, block_id: f.block_id }).await.map_err(|e| ("node:block-fetch-failed".to_string(), e))
                }
            }
            Act::Tick => {
                let r1 = self.a.tick(2_000).await.map_err(|e| ("node:timer".to_string(), e));
                if r1.is_err() {
                    r1
                } else {
                    // both nodes share the virtual clock: the peer's timers run without advancing it again
                    self.p.tick(0).await.map_err(|e| ("peer:timer".to_string(), e))
                }
            }
        };
        self.collect();
        r
    }
}

struct Scenario {
    b: Builder,
    node_tip: Hash,
    peer_tip: Hash,
    prefix: u64,
    a_len: u64,
    b_len: u64,
    /// the peer stored the node's branch first and reorganised onto its own chain afterwards
    peer_reorged: bool,
}

/// chains sharing `prefix` blocks after genesis, the node with `a_len` own blocks, the peer with
/// `b_len`; None when the producer cannot build them
async fn scenario(rng: &mut Rng, gp: u64, prefix: u64, a_len: u64, b_len: u64) -> Option<Scenario> {
    let params = Params::with_gp(gp);
    let mut b = Builder::new(&params, 6, &default_issuance(6)).await;
    let g = b.genesis;
    let fork = b.grow(rng, &g, prefix as usize, 1, 15).await;
    let mut node_tip = fork;
    for i in 0..a_len {
        let id = b.store.get(&node_tip).id + 1;
        let mut ex = vec![];
        let txs = b.payment(rng, &node_tip, 1, 2, 3 + i, 15, &mut ex).into_iter().collect();
        let spec = BlockSpec { gap: 2 * params.heartbeat + 7, txs, with_gt: id % 2 == 0, gt_miner: 1 };
        node_tip = b.extend(rng, &node_tip, &spec).await.ok()?;
    }
    let mut peer_tip = fork;
    for i in 0..b_len {
        let id = b.store.get(&peer_tip).id + 1;
        let mut ex = vec![];
        let txs = b.payment(rng, &peer_tip, 3, 4, 5 + i, 15, &mut ex).into_iter().collect();
        let spec = BlockSpec { gap: 2 * params.heartbeat, txs, with_gt: id % 2 == 0, gt_miner: 3 };
        peer_tip = b.extend(rng, &peer_tip, &spec).await.ok()?;
    }
    Some(Scenario { b, node_tip, peer_tip, prefix, a_len, b_len, peer_reorged: false })
}

/// would a node sitting on `node_tip` move to `peer_tip` if it simply received the peer's blocks
/// in chain order? (the fork choice needs more than length)
async fn reference_adopts(sc: &Scenario) -> bool {
    let key = sc.b.actors[5].clone();
    let mut n = sc.b.fresh_replica(&sc.node_tip, &key).await;
    for h in sc.b.store.ancestors(&sc.peer_tip) {
        let bytes = sc.b.store.get(&h).bytes.clone();
        let _ = n.add_bytes(&bytes).await;
    }
    n.tip().await.1 == sc.peer_tip
}

async fn new_pair(sc: &Scenario, loaded: bool, batch: u64) -> Option<Pair> {
    let mut params = sc.b.params.clone();
    params.loading_completed = loaded;
    params.batch_size = batch;
    let all = actors(8);
    let clock = VClock::new(T0 + 3_600_000);
    let mut a = Node::new(&all[5], &params, MemIo::new(), clock.clone(), vec![peer_cfg(1)], "http://a.example:1");
    let mut p = Node::new(&all[6], &params, MemIo::new(), clock.clone(), vec![], "http://p.example:1");
    a.init().await.ok()?;
    p.init().await.ok()?;
    for h in sc.b.store.ancestors(&sc.node_tip) {
        a.add_block_direct(&sc.b.store.get(&h).bytes.clone()).await;
    }
    if sc.peer_reorged {
        for h in sc.b.store.ancestors(&sc.node_tip) {
            p.add_block_direct(&sc.b.store.get(&h).bytes.clone()).await;
        }
    }
    for h in sc.b.store.ancestors(&sc.peer_tip) {
        p.add_block_direct(&sc.b.store.get(&h).bytes.clone()).await;
    }
    if p.tip().await.1 != sc.peer_tip {
        return None;
    }
    while a.rx_router.try_recv().is_ok() {}
    while p.rx_router.try_recv().is_ok() {}
    let _ = a.io.take_outbox();
    let _ = p.io.take_outbox();
    let mut pair = Pair { a, p, to_p: VecDeque::new(), to_a: VecDeque::new(), fetches: vec![], requested: BTreeSet::new(), trace: vec![], out_of_order_completions: 0, last_completed_id: 0 };
    // the connection comes up on both sides (A dialled its static peer)
    pair.a.net(NetworkEvent::PeerConnectionResult { result: Ok((A_SEES_P, Some("10.0.0.2".into()))) }).await.ok()?;
    pair.p.net(NetworkEvent::PeerConnectionResult { result: Ok((P_SEES_A, Some("10.0.0.1".into()))) }).await.ok()?;
    pair.collect();
    Some(pair)
}

/// the estimate of the real chains of a scenario, in both directions, against the fork point read
/// off the two longest chains
async fn estimate_check(sc: &Scenario, rep: &mut Report) {
    let pair = match new_pair(sc, true, 1).await {
        Some(p) => p,
        None => return,
    };
    let a = pair.a.chain.read().await;
    let p = pair.p.chain.read().await;
    let fp = true_fork_point(&a, &p);
    for (resp, req, role) in [(&*p, &*a, "peer-answers-node"), (&*a, &*p, "node-answers-peer")] {
        let req_id = req.get_latest_block_id();
        let fid = match crate::panics::catch(|| req.generate_fork_id(req_id)) {
            Ok(f) => f.unwrap_or([0; 32]),
            Err(_) => continue,
        };
        let est = match crate::panics::catch(|| resp.generate_last_shared_ancestor(req_id, fid)) {
            Ok(e) => e,
            Err(_) => continue,
        };
        rep.eval();
        rep.count("system_estimates");
        if sc.peer_reorged {
            rep.count("system_estimates.responder-stores-a-stale-branch");
        }
        if est > fp {
            rep.violation(
                "C15|clause=shared-ancestor-estimate-after-fork-point",
                &format!("real chains sharing blocks 1..{} (responder length {}, requester length {}, peer stores the node's branch as a stale fork: {}): {} estimates the last shared ancestor as {} and would start streaming after the fork point", fp, resp.get_latest_block_id(), req_id, sc.peer_reorged, role, est),
                json!({"kind":"system-estimate","gp":sc.b.params.gp,"prefix":sc.prefix,"node_blocks":sc.a_len,"peer_blocks":sc.b_len,"peer_reorged":sc.peer_reorged,"role":role}),
            );
        }
    }
}

#[allow(clippy::too_many_arguments)]
async fn run_schedule(sc: &Scenario, loaded: bool, batch: u64, choices: Option<&[usize]>, rng: &mut Rng, rep: &mut Report, label: &str) -> Option<Vec<usize>> {
    let mut pair = new_pair(sc, loaded, batch).await?;
    let needed: Vec<Hash> = sc.b.store.ancestors(&sc.peer_tip).into_iter().filter(|h| sc.b.store.get(h).id > sc.prefix + 1).collect();
    let bound = 14 * (needed.len() as u64 + sc.a_len) + 150;
    let mut taken = vec![];
    let mut steps = 0u64;
    let mut ticks = 0u64;
    let witness = |pair: &Pair| json!({"kind":"sync","gp":sc.b.params.gp,"prefix":sc.prefix,"node_blocks":sc.a_len,"peer_blocks":sc.b_len,"loaded":loaded,"batch":batch,"peer_reorged":sc.peer_reorged,"trace":pair.trace});
    rep.eval();
    rep.count("sync_runs");
    rep.count(if loaded { "sync_runs.loaded" } else { "sync_runs.not-loaded" });
    loop {
        if pair.a.tip().await.1 == sc.peer_tip {
            rep.count("sync_converged");
            rep.max("sync_steps_to_converge", steps);
            break;
        }
        if steps >= bound {
            let (tid, th) = pair.a.tip().await;
            let never: Vec<u64> = needed.iter().filter(|h| !pair.requested.contains(*h)).map(|h| sc.b.store.get(h).id).collect();
            let held = { let c = pair.a.chain.read().await; needed.iter().filter(|h| c.blocks.contains_key(*h)).count() };
            let queued = { pair.a.mempool.read().await.blocks_queue.len() };
            let cause = if !loaded && pair.out_of_order_completions > 0 {
                "|cause=block-before-parent-while-not-loaded"
            } else if !never.is_empty() {
                "|cause=needed-block-never-requested"
            } else {
                ""
            };
            rep.violation(
                &format!("C15|clause=not-converged-within-bound{}|loaded={}", cause, loaded),
                &format!("{}: after {} scheduler steps ({} ticks; bound {}) the node sits at {} ({}) and the peer at {}; needed blocks: {} (held {}, queued {}), never requested ids: {:?}; out-of-order completions: {}", label, steps, ticks, bound, tid, hex::encode(&th[..3]), sc.b.store.get(&sc.peer_tip).id, needed.len(), held, queued, never, pair.out_of_order_completions),
                witness(&pair),
            );
            break;
        }
        let en = pair.enabled();
        let act = if en.is_empty() {
            ticks += 1;
            Act::Tick
        } else {
            let i = match choices {
                Some(c) if taken.len() < c.len() => c[taken.len()] % en.len(),
                Some(_) => 0,
                None => rng.below(en.len() as u64) as usize,
            };
            taken.push(i);
            en[i].clone()
        };
        steps += 1;
        if let Err((handler, p)) = pair.apply(&act, &sc.b).await {
            let tainted = !loaded && pair.out_of_order_completions > 0;
            rep.violation(
                &format!("C15|clause=handler-panic|handler={}|{}{}", handler, p.signature(), if tainted { "|cause=block-before-parent-while-not-loaded" } else { "" }),
                &format!("{}: {} panicked at {}:{}: {}", label, handler, p.rel_file(), p.line, p.message),
                witness(&pair),
            );
            break;
        }
    }
    if pair.out_of_order_completions > 0 {
        rep.count("sync_runs_with_out_of_order_completions");
    }
    rep.add("sync_fetch_requests", pair.requested.len() as u64);
    // the set requested must cover the set needed whenever the node converged
    rep.nontrivial(&format!("{}|{:?}", label, pair.trace.iter().take(60).collect::<Vec<_>>()));
    Some(taken)
}

pub async fn run(ctx: &Ctx, rep: &mut Report) {
    let mut rng = ctx.rng();
    // ---- pure part: exhaustive over small shapes, then shapes around every checkpoint
    let gp_small = 3_000;
    let mut i = 0u64;
    for prefix in 0..=14u64 {
        for m in 0..=12u64 {
            for p in 0..=12u64 {
                i += 1;
                if ctx.mine(i) {
                    pure_case(gp_small, prefix, m, p, rep);
                }
            }
        }
    }
    let cum: [u64; 11] = [10, 20, 30, 40, 50, 75, 100, 200, 500, 1000, 5000];
    let n_rand = ctx.scale(1_500, 30_000) / ctx.shards.max(1);
    for _ in 0..n_rand {
        // lengths chosen around the cumulative checkpoint distances and decade boundaries
        let around = |rng: &mut Rng| -> u64 {
            let hi = if rng.below(4) == 0 { 11 } else { 9 };
            let c = *rng.pick(&cum[..hi]);
            (c + rng.below(25)).saturating_sub(rng.below(12))
        };
        let prefix = around(&mut rng).min(5_200);
        let m = if rng.below(3) == 0 { around(&mut rng).min(600) } else { rng.below(30) };
        let p = if rng.below(3) == 0 { around(&mut rng).min(600) } else { rng.below(30) };
        pure_case(gp_small, prefix, m, p, rep);
    }
    if ctx.thorough && ctx.mine(0) {
        // all sixteen checkpoints: chains of ~190 000 ghost blocks
        for (prefix, m, p) in [(185_200u64, 30u64, 45u64), (150_000, 40_000, 40_010), (190_000, 0, 25), (85_000, 100_500, 100_700)] {
            pure_case(200_000, prefix, m, p, rep);
            rep.count("pure.long-chain-cases");
        }
    }
    // ---- system part
    // (prefix, node blocks, peer blocks, peer stored the node's branch before its own)
    let shapes: Vec<(u64, u64, u64, bool)> = vec![
        (0, 0, 3, false), (2, 0, 4, false), (3, 1, 4, false), (1, 2, 5, true), (4, 0, 8, false), (6, 2, 9, false), (0, 1, 6, false), (9, 0, 12, false),
        (5, 4, 10, false), (5, 7, 12, true),
        (12, 3, 14, false), (5, 0, 22, false), (8, 13, 19, true), (3, 5, 11, true),
    ];
    let mut case = 0u64;
    for (si, (prefix, a_len, b_len, reorged)) in shapes.iter().enumerate() {
        if !ctx.thorough && si >= 10 {
            break;
        }
        for gp in [30u64, 60] {
            case += 1;
            if !ctx.mine(case) {
                continue;
            }
            let sc = match scenario(&mut rng, gp, *prefix, *a_len, *b_len).await {
                Some(mut s) => {
                    s.peer_reorged = *reorged;
                    s
                }
                None => {
                    rep.count("sync_scenarios_not_built");
                    continue;
                }
            };
            if !reference_adopts(&sc).await {
                rep.count("sync_scenarios_skipped_fork_choice_keeps_own_chain");
                continue;
            }
            rep.count("sync_scenarios");
            if sc.peer_reorged {
                rep.count("sync_scenarios.peer-reorganised-off-the-node-branch");
            }
            estimate_check(&sc, rep).await;
            for loaded in [true, false] {
                for batch in [1u64, 3, 10] {
                    let label = format!("prefix={} node+{} peer+{} gp={} loaded={} batch={} peer-reorged={}", prefix, a_len, b_len, gp, loaded, batch, reorged);
                    // FIFO-ish schedule (always the first enabled action), then random schedules
                    let zeros = vec![0usize; 4000];
                    run_schedule(&sc, loaded, batch, Some(&zeros), &mut rng, rep, &label).await;
                    for _ in 0..ctx.scale(6, 60) {
                        run_schedule(&sc, loaded, batch, None, &mut rng, rep, &label).await;
                    }
                }
            }
            // bounded exhaustive over the first choices for the smallest shapes
            if *b_len <= 4 {
                let depth = ctx.scale(5, 7) as usize;
                let mut stack: Vec<Vec<usize>> = vec![vec![]];
                let mut budget = ctx.scale(150, 3_000);
                rep.exhaustive = false;
                while let Some(prefix_choices) = stack.pop() {
                    if budget == 0 {
                        break;
                    }
                    budget -= 1;
                    let mut full = prefix_choices.clone();
                    full.extend(std::iter::repeat(0).take(4000));
                    run_schedule(&sc, true, 3, Some(&full), &mut rng, rep, &format!("dfs {:?}", prefix_choices)).await;
                    rep.count("sync_runs.dfs");
                    if prefix_choices.len() < depth {
                        for c in 0..3usize {
                            let mut n = prefix_choices.clone();
                            n.push(c);
                            stack.push(n);
                        }
                    }
                }
            }
        }
    }
    let _ = BTreeMap::<u8, u8>::new();
}
