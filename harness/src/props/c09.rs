//! C09 — wire and disk formats round-trip and preserve identity.
use saito_core::core::consensus::block::{Block, BlockType};
use saito_core::core::consensus::hop::Hop;
use saito_core::core::consensus::peers::peer_service::PeerService;
use saito_core::core::consensus::slip::Slip;
use saito_core::core::consensus::transaction::{Transaction, TransactionType};
use saito_core::core::consensus::wallet::Wallet;
use saito_core::core::defs::PrintForLog;
use saito_core::core::msg::api_message::ApiMessage;
use saito_core::core::msg::handshake::{HandshakeChallenge, HandshakeResponse};
use saito_core::core::msg::message::Message;
use saito_core::core::process::version::Version;
use saito_core::core::util::balance_snapshot::BalanceSnapshot;
use saito_core::core::util::crypto::verify_signature;
use saito_core::core::util::serialize::Serialize;
use serde_json::json;

use crate::corpus::{self, Corpus};
use crate::io::MemIo;
use crate::panics;
use crate::props::Ctx;
use crate::report::Report;
use crate::rng::Rng;
use crate::world::*;

const EXTREMES: [u64; 9] = [0, 1, 1 << 8, 1 << 16, 1 << 32, 1 << 63, u64::MAX, 255, 65_535];

fn xval(rng: &mut Rng) -> u64 {
    if rng.chance(1, 2) {
        EXTREMES[rng.below(EXTREMES.len() as u64) as usize]
    } else {
        rng.next()
    }
}

fn slip_fields(s: &Slip) -> (Vec<u8>, u64, u64, u64, u8, u8) {
    (s.public_key.to_vec(), s.amount, s.block_id, s.tx_ordinal, s.slip_index, s.slip_type as u8)
}

fn rand_slip(rng: &mut Rng) -> Slip {
    let mut s = Slip::default();
    s.public_key.copy_from_slice(&rng.bytes(33));
    s.amount = xval(rng);
    s.block_id = xval(rng);
    s.tx_ordinal = xval(rng);
    s.slip_index = rng.below(256) as u8;
    s.slip_type = slip_type_from(rng.below(10) as u8);
    s
}

fn rand_hop(rng: &mut Rng) -> Hop {
    let mut h = Hop::default();
    h.from.copy_from_slice(&rng.bytes(33));
    h.to.copy_from_slice(&rng.bytes(33));
    h.sig.copy_from_slice(&rng.bytes(64));
    h
}

fn tx_type_from(v: u8) -> TransactionType {
    match v {
        0 => TransactionType::Normal,
        1 => TransactionType::Fee,
        2 => TransactionType::GoldenTicket,
        3 => TransactionType::ATR,
        4 => TransactionType::Vip,
        5 => TransactionType::SPV,
        6 => TransactionType::Issuance,
        7 => TransactionType::BlockStake,
        _ => TransactionType::Bound,
    }
}

fn rand_tx(rng: &mut Rng, big: bool) -> Transaction {
    let mut tx = Transaction::default();
    tx.timestamp = xval(rng);
    let nin = match rng.below(6) {
        0 => 0,
        1 => 255,
        2 => 254,
        _ => rng.below(6),
    };
    let nout = match rng.below(6) {
        0 => 0,
        1 => 255,
        _ => rng.below(6),
    };
    for _ in 0..nin {
        tx.from.push(rand_slip(rng));
    }
    for _ in 0..nout {
        tx.to.push(rand_slip(rng));
    }
    let dlen = if big { 1 << 20 } else { match rng.below(4) { 0 => 0, 1 => 1, _ => rng.below(300) as usize } };
    tx.data = rng.bytes(dlen);
    tx.transaction_type = tx_type_from(rng.below(9) as u8);
    tx.txs_replacements = xval(rng) as u32;
    tx.signature.copy_from_slice(&rng.bytes(64));
    for _ in 0..rng.below(9) {
        tx.path.push(rand_hop(rng));
    }
    tx
}

fn tx_fields(tx: &Transaction) -> serde_json::Value {
    json!({
        "ts": tx.timestamp,
        "from": tx.from.iter().map(slip_fields).collect::<Vec<_>>(),
        "to": tx.to.iter().map(slip_fields).collect::<Vec<_>>(),
        "data": hex::encode(&tx.data[..tx.data.len().min(64)]),
        "dlen": tx.data.len(),
        "type": tx.transaction_type as u8,
        "repl": tx.txs_replacements,
        "sig": hex::encode(tx.signature),
        "path": tx.path.iter().map(|h| hex::encode(h.serialize_for_net())).collect::<Vec<_>>(),
    })
}

fn header_fields(b: &Block) -> Vec<u64> {
    vec![
        b.id, b.timestamp, b.graveyard, b.treasury, b.burnfee, b.difficulty, b.avg_total_fees,
        b.avg_fee_per_byte, b.avg_nolan_rebroadcast_per_block, b.previous_block_unpaid,
        b.avg_total_fees_new, b.avg_total_fees_atr, b.avg_payout_routing, b.avg_payout_mining,
        b.avg_payout_treasury, b.avg_payout_graveyard, b.avg_payout_atr, b.total_payout_routing,
        b.total_payout_mining, b.total_payout_treasury, b.total_payout_graveyard,
        b.total_payout_atr, b.total_fees, b.total_fees_new, b.total_fees_atr, b.fee_per_byte,
        b.total_fees_cumulative,
    ]
}

fn rand_block(rng: &mut Rng) -> Block {
    let mut b = Block::new();
    // every header integer distinct and (often) extreme, to expose order / width mistakes
    b.id = 2 + xval(rng) % (u64::MAX - 2);
    b.timestamp = xval(rng);
    b.previous_block_hash = rng.hash32();
    b.creator.copy_from_slice(&rng.bytes(33));
    b.merkle_root = rng.hash32();
    b.signature.copy_from_slice(&rng.bytes(64));
    b.graveyard = xval(rng);
    b.treasury = xval(rng);
    b.burnfee = xval(rng);
    b.difficulty = xval(rng);
    b.avg_total_fees = xval(rng);
    b.avg_fee_per_byte = xval(rng);
    b.avg_nolan_rebroadcast_per_block = xval(rng);
    b.previous_block_unpaid = xval(rng);
    b.avg_total_fees_new = xval(rng);
    b.avg_total_fees_atr = xval(rng);
    b.avg_payout_routing = xval(rng);
    b.avg_payout_mining = xval(rng);
    b.avg_payout_treasury = xval(rng);
    b.avg_payout_graveyard = xval(rng);
    b.avg_payout_atr = xval(rng);
    b.total_payout_routing = xval(rng);
    b.total_payout_mining = xval(rng);
    b.total_payout_treasury = xval(rng);
    b.total_payout_graveyard = xval(rng);
    b.total_payout_atr = xval(rng);
    b.total_fees = xval(rng);
    b.total_fees_new = xval(rng);
    b.total_fees_atr = xval(rng);
    b.fee_per_byte = xval(rng);
    b.total_fees_cumulative = xval(rng);
    for _ in 0..(1 + rng.below(4)) {
        b.transactions.push(rand_tx(rng, false));
    }
    b
}

struct Mon<'a> {
    rep: &'a mut Report,
}

impl<'a> Mon<'a> {
    fn fail(&mut self, format: &str, clause: &str, detail: String, witness: serde_json::Value) {
        self.rep.violation(
            &format!("C09|format={}|clause={}", format, clause),
            &detail,
            json!({"kind":"roundtrip","format":format,"clause":clause,"witness":witness}),
        );
    }
    fn seen(&mut self, format: &str, shape: String) {
        self.rep.eval();
        self.rep.count(&format!("values.{}", format));
        self.rep.nontrivial(&format!("{}|{}", format, shape));
    }

    fn slip(&mut self, s: &Slip) {
        self.seen("slip", format!("{:?}", slip_fields(s)));
        let bytes = s.serialize_for_net();
        if bytes.len() != 59 {
            self.fail("slip", "size", format!("len {}", bytes.len()), json!(hex::encode(&bytes)));
        }
        match Slip::deserialize_from_net(&bytes) {
            Ok(d) => {
                if slip_fields(&d) != slip_fields(s) {
                    self.fail("slip", "decode-equal", format!("{:?} != {:?}", slip_fields(&d), slip_fields(s)), json!(hex::encode(&bytes)));
                }
                if d.serialize_for_net() != bytes {
                    self.fail("slip", "reencode", "bytes differ".into(), json!(hex::encode(&bytes)));
                }
            }
            Err(e) => self.fail("slip", "decode", e.to_string(), json!(hex::encode(&bytes))),
        }
    }

    fn hop(&mut self, h: &Hop) {
        let bytes = h.serialize_for_net();
        self.seen("hop", hex::encode(&bytes[..8]));
        match Hop::deserialize_from_net(&bytes) {
            Ok(d) => {
                if d != *h || d.serialize_for_net() != bytes || bytes.len() != 130 {
                    self.fail("hop", "decode-equal", "hop differs".into(), json!(hex::encode(&bytes)));
                }
            }
            Err(e) => self.fail("hop", "decode", e.to_string(), json!(hex::encode(&bytes))),
        }
    }

    fn tx(&mut self, tx: &Transaction) {
        self.seen(
            "transaction",
            format!("{}|{}|{}|{}|{}|{}", tx.transaction_type as u8, tx.from.len(), tx.to.len(), tx.path.len(), tx.data.len(), tx.timestamp),
        );
        let bytes = tx.serialize_for_net();
        let w = json!({"hex_prefix": hex::encode(&bytes[..bytes.len().min(200)]), "fields": tx_fields(tx)});
        if tx.get_serialized_size() != bytes.len() {
            self.fail("transaction", "size", format!("predicted {} real {}", tx.get_serialized_size(), bytes.len()), w.clone());
        }
        match Transaction::deserialize_from_net(&bytes) {
            Ok(mut d) => {
                if tx_fields(&d) != tx_fields(tx) || d.data != tx.data {
                    self.fail("transaction", "decode-equal", "fields differ after decode".into(), w.clone());
                }
                if d.serialize_for_net() != bytes {
                    self.fail("transaction", "reencode", "bytes differ".into(), w.clone());
                }
                let mut o = tx.clone();
                o.generate_hash_for_signature();
                d.generate_hash_for_signature();
                if o.hash_for_signature != d.hash_for_signature {
                    self.fail("transaction", "hash", "hash_for_signature differs".into(), w.clone());
                }
                if !tx.from.is_empty() {
                    let v1 = verify_signature(&o.hash_for_signature.unwrap(), &o.signature, &o.from[0].public_key);
                    let v2 = verify_signature(&d.hash_for_signature.unwrap(), &d.signature, &d.from[0].public_key);
                    if v1 != v2 {
                        self.fail("transaction", "signature-validity", format!("{} vs {}", v1, v2), w);
                    }
                    if v1 {
                        self.rep.count("tx.valid_signature_preserved");
                    }
                }
            }
            Err(e) => self.fail("transaction", "decode", e.to_string(), w),
        }
    }

    fn block(&mut self, b: &Block, what: &str) {
        self.seen(&format!("block-{}", what), format!("{}|{}|{:?}", b.id, b.transactions.len(), header_fields(b)));
        // full
        let bytes = b.serialize_for_net(BlockType::Full);
        let w = json!({"what": what, "id": b.id, "txs": b.transactions.len(), "hex_prefix": hex::encode(&bytes[..bytes.len().min(400)])});
        let mut orig = b.clone();
        let _ = orig.generate();
        match Block::deserialize_from_net(&bytes) {
            Ok(d0) => {
                // compare the decoded value as decoded; generate() (needed for the hash) rewrites
                // the position fields of output slips and is applied to a copy
                let mut d = d0.clone();
                let _ = d.generate();
                let d_gen_hash = d.hash;
                let d_pre = d.pre_hash;
                let d = d0;
                if header_fields(&d) != header_fields(b)
                    || d.previous_block_hash != b.previous_block_hash
                    || d.creator != b.creator
                    || d.merkle_root != b.merkle_root
                    || d.signature != b.signature
                {
                    self.fail("block", "decode-equal", "header fields differ".into(), w.clone());
                }
                if d.transactions.len() != b.transactions.len()
                    || d.transactions.iter().zip(b.transactions.iter()).any(|(x, y)| tx_fields(x) != tx_fields(y))
                {
                    self.fail("block", "decode-equal-txs", "transactions differ".into(), w.clone());
                }
                if d.serialize_for_net(BlockType::Full) != bytes {
                    self.fail("block", "reencode", "bytes differ".into(), w.clone());
                }
                if d_gen_hash != orig.hash {
                    self.fail("block", "hash", "hash changed across the wire".into(), w.clone());
                }
                let s1 = verify_signature(&orig.pre_hash, &orig.signature, &orig.creator);
                let s2 = verify_signature(&d_pre, &d.signature, &d.creator);
                if s1 != s2 {
                    self.fail("block", "signature-validity", format!("{} vs {}", s1, s2), w.clone());
                }
            }
            Err(e) => self.fail("block", "decode", e.to_string(), w.clone()),
        }
        // header only
        let hbytes = orig.serialize_for_net(BlockType::Header);
        self.rep.count("values.block-header");
        if hbytes.len() != 389 {
            self.fail("block-header", "size", format!("{}", hbytes.len()), w.clone());
        }
        match Block::deserialize_from_net(&hbytes) {
            Ok(mut d) => {
                let _ = d.generate();
                if header_fields(&d) != header_fields(&orig) || !d.transactions.is_empty() {
                    self.fail("block-header", "decode-equal", "header differs".into(), w.clone());
                }
                if d.hash != orig.hash {
                    self.fail("block-header", "hash", "header-only block has a different hash".into(), w.clone());
                }
                if d.serialize_for_net(BlockType::Header) != hbytes {
                    self.fail("block-header", "reencode", "bytes differ".into(), w.clone());
                }
            }
            Err(e) => self.fail("block-header", "decode", e.to_string(), w),
        }
    }

    fn message(&mut self, name: &str, bytes: &[u8]) {
        self.seen("message", format!("{}|{}|{}", bytes[0], name, bytes.len()));
        self.rep.count(&format!("message.tag{}", bytes[0]));
        let w = json!({"name": name, "hex_prefix": hex::encode(&bytes[..bytes.len().min(300)])});
        match Message::deserialize(bytes.to_vec()) {
            Ok(m) => {
                if m.get_type_value() != bytes[0] {
                    self.fail("message", "tag", format!("{} vs {}", m.get_type_value(), bytes[0]), w.clone());
                }
                // blocks decoded from the wire keep their merkle root, so re-encoding is exact
                if m.serialize() != bytes {
                    self.fail("message", "reencode", format!("tag {} re-encodes differently", bytes[0]), w);
                }
            }
            Err(e) => self.fail("message", "decode", format!("tag {}: {}", bytes[0], e), w),
        }
    }
}

pub async fn run(ctx: &Ctx, rep: &mut Report) {
    let mut rng = ctx.rng();
    let mut crng = Rng::new(ctx.seed ^ 0xC09);
    let gp = if ctx.shard % 2 == 0 { 100 } else { 5 };
    let corpus = Corpus::build(&mut crng, &Params::with_gp(gp), if gp == 5 { 14 } else { 8 }).await;
    let mut m = Mon { rep };
    let n = ctx.scale(6_000, 120_000) / ctx.shards.max(1);

    // --- generated values
    for i in 0..n {
        m.slip(&rand_slip(&mut rng));
        if i % 2 == 0 {
            m.hop(&rand_hop(&mut rng));
        }
        let tx = rand_tx(&mut rng, i % 1500 == 7);
        // the encoders are expected not to panic on structurally valid values
        let r = panics::catch(|| {
            let mut mm = Mon { rep: &mut Report::new("C09", "", 0, 0) };
            mm.tx(&tx);
        });
        if let Err(p) = r {
            m.fail("transaction", "panic", p.signature(), tx_fields(&tx));
        } else {
            m.tx(&tx);
        }
        if i % 4 == 0 {
            let b = rand_block(&mut rng);
            m.block(&b, "random");
        }
    }
    // --- real values from the corpus (valid signatures, real fee / golden-ticket / ATR txs)
    for tx in &corpus.txs {
        m.tx(tx);
    }
    for b in &corpus.blocks {
        m.block(b, "real");
    }
    // --- messages of every tag
    let msgs = corpus::messages(&mut crng, &corpus);
    for (name, bytes) in &msgs {
        m.message(name, bytes);
    }
    for _ in 0..(n / 10).max(50) {
        let a = &corpus.builder.actors;
        let ch = rng.hash32();
        let url_len = rng.below(40) as usize;
        let url: String = (0..url_len).map(|_| (b'a' + rng.below(26) as u8) as char).collect();
        let r = corpus::handshake_response(&a[rng.below(5) as usize], &ch, &url, rng.chance(1, 2), rng.below(4) as usize);
        let bytes = r.serialize();
        m.seen("handshake-response", format!("{}|{}|{}", url_len, r.services.len(), r.is_lite));
        match HandshakeResponse::deserialize(&bytes) {
            Ok(d) => {
                if d.public_key != r.public_key || d.signature != r.signature || d.challenge != r.challenge || d.is_lite != r.is_lite
                    || d.block_fetch_url != r.block_fetch_url || d.services.len() != r.services.len()
                    || d.wallet_version != r.wallet_version || d.core_version != r.core_version || d.serialize() != bytes
                {
                    m.fail("handshake-response", "decode-equal", "fields differ".into(), json!(hex::encode(&bytes)));
                }
            }
            Err(e) => m.fail("handshake-response", "decode", e.to_string(), json!(hex::encode(&bytes))),
        }
        let c = HandshakeChallenge { challenge: rng.hash32() };
        m.seen("handshake-challenge", hex::encode(&c.challenge[..4]));
        if HandshakeChallenge::deserialize(&c.serialize()).map(|d| d.challenge != c.challenge).unwrap_or(true) {
            m.fail("handshake-challenge", "decode-equal", "challenge differs".into(), json!(hex::encode(c.challenge)));
        }
        let gn = rng.below(6) as usize;
        let g = corpus::ghost_sync(&mut rng, gn);
        let gb = g.serialize();
        m.seen("ghost-chain", format!("{}", g.block_ids.len()));
        let d = saito_core::core::msg::ghost_chain_sync::GhostChainSync::deserialize(gb.clone());
        if d.start != g.start || d.prehashes != g.prehashes || d.previous_block_hashes != g.previous_block_hashes || d.block_ids != g.block_ids
            || d.block_ts != g.block_ts || d.txs != g.txs || d.gts != g.gts || d.serialize() != gb
        {
            m.fail("ghost-chain", "decode-equal", "fields differ".into(), json!(hex::encode(&gb)));
        }
        let api = ApiMessage { msg_index: xval(&mut rng) as u32, data: { let k = rng.below(100) as usize; rng.bytes(k) } };
        m.seen("api-message", format!("{}|{}", api.msg_index, api.data.len()));
        let d = ApiMessage::deserialize(&api.serialize());
        if d.msg_index != api.msg_index || d.data != api.data {
            m.fail("api-message", "decode-equal", "fields differ".into(), json!(api.msg_index));
        }
        let v = Version::new(rng.below(256) as u8, rng.below(256) as u8, xval(&mut rng) as u16);
        m.seen("version", format!("{:?}", v));
        if Version::deserialize(&v.serialize()).map(|d| d != v).unwrap_or(true) || v.serialize().len() != 4 {
            m.fail("version", "decode-equal", format!("{:?}", v), json!(null));
        }
        let svcs = corpus::services(rng.below(5) as usize);
        m.seen("peer-services", format!("{}", svcs.len()));
        let sb = PeerService::serialize_services(&svcs);
        match PeerService::deserialize_services(sb.clone()) {
            Ok(d) => {
                if d.len() != svcs.len() || PeerService::serialize_services(&d) != sb {
                    m.fail("peer-services", "decode-equal", "list differs".into(), json!(String::from_utf8_lossy(&sb)));
                }
            }
            Err(e) => m.fail("peer-services", "decode", e.to_string(), json!(String::from_utf8_lossy(&sb))),
        }
        let req = corpus::blockchain_request(xval(&mut rng), &rng.hash32(), &rng.hash32());
        m.seen("blockchain-request", hex::encode(&req.serialize()[..12]));
        let rb = req.serialize();
        if saito_core::core::msg::block_request::BlockchainRequest::deserialize(&rb).map(|d| d.serialize() != rb).unwrap_or(true) || rb.len() != 72 {
            m.fail("blockchain-request", "decode-equal", "differs".into(), json!(hex::encode(&rb)));
        }
        let a = &corpus.builder.actors[rng.below(5) as usize];
        let w = Wallet::new(a.sk, a.pk);
        let mut w2 = Wallet::new([0; 32], [0; 33]);
        w2.deserialize_from_disk(&w.serialize_for_disk());
        m.seen("wallet-disk", hex::encode(&a.pk[..4]));
        if w2.public_key != w.public_key || w2.private_key != w.private_key {
            m.fail("wallet-disk", "decode-equal", "keys differ".into(), json!(null));
        }
    }

    // --- disk: blocks through Storage::write_block_to_disk / load_block_from_disk; verdict preserved
    {
        let b = &corpus.builder;
        let io = MemIo::new();
        let mut wire_node = LNode::new(&b.actors[3], &b.params);
        let mut disk_node = LNode::with_io(&b.actors[4], &b.params, io.clone());
        let mut scratch = saito_core::core::io::storage::Storage::new(MemIo::new().boxed());
        for h in b.store.ancestors(&corpus.tip) {
            let s = b.store.get(&h);
            let r1 = wire_node.add_bytes(&s.bytes).await;
            let name = scratch.write_block_to_disk(&s.block).await;
            let loaded = scratch.load_block_from_disk(&name).await;
            m.seen("block-disk", format!("{}|{}", s.id, s.block.transactions.len()));
            match loaded {
                Ok(mut lb) => {
                    let _ = lb.generate();
                    if lb.hash != s.hash || lb.serialize_for_net(BlockType::Full) != s.bytes {
                        m.fail("block-disk", "hash", "block changed identity through the disk".into(), json!({"id": s.id}));
                    }
                    let r2 = Added::from(&disk_node.add_block(lb).await);
                    if Some(r2.clone()) != r1 {
                        m.fail("block-disk", "verdict", format!("wire {:?} vs disk {:?}", r1, r2), json!({"id": s.id}));
                    } else if r2.accepted() {
                        m.rep.count("block.verdict_preserved_accepted");
                    }
                }
                Err(e) => m.fail("block-disk", "decode", e.to_string(), json!({"id": s.id})),
            }
        }
        if wire_node.tip().await != disk_node.tip().await {
            m.fail("block-disk", "verdict", "tips differ".into(), json!(null));
        }
        // balance snapshot of the final state
        let chain = wire_node.chain.read().await;
        let cfg = wire_node.cfg.read().await;
        let snap = chain.get_balance_snapshot(vec![], &*cfg);
        m.seen("balance-snapshot", format!("{}", snap.slips.len()));
        let (name, rows) = snap.get_data();
        match BalanceSnapshot::new(name.clone(), rows.clone()) {
            Ok(d) => {
                let mut bad = d.latest_block_id != snap.latest_block_id || d.latest_block_hash != snap.latest_block_hash || d.timestamp != snap.timestamp || d.slips.len() != snap.slips.len();
                let mut type_loss = 0;
                for (x, y) in d.slips.iter().zip(snap.slips.iter()) {
                    if (x.public_key, x.amount, x.block_id, x.tx_ordinal, x.slip_index) != (y.public_key, y.amount, y.block_id, y.tx_ordinal, y.slip_index) {
                        bad = true;
                    }
                    if x.slip_type != y.slip_type {
                        type_loss += 1;
                    }
                }
                if bad || d.get_data() != (name.clone(), rows.clone()) {
                    m.fail("balance-snapshot", "decode-equal", "rows differ".into(), json!({"name": name}));
                }
                if type_loss > 0 {
                    m.rep.add("balance_snapshot.slips_with_type_not_recorded", type_loss);
                    m.fail(
                        "balance-snapshot",
                        "decode-equal-slip-type",
                        format!("{} of {} slips come back with a different slip type (and therefore a different utxo key)", type_loss, snap.slips.len()),
                        json!({"name": name, "rows": rows.len()}),
                    );
                }
            }
            Err(e) => m.fail("balance-snapshot", "decode", e, json!({"name": name})),
        }
    }
    for tx in corpus.txs.iter().take(3) {
        m.rep.sample(json!({"format":"transaction","fields":tx_fields(tx)}));
    }
    m.rep.sample(json!({"format":"block","header":header_fields(&corpus.blocks[corpus.blocks.len()-1]),"txs":corpus.blocks[corpus.blocks.len()-1].transactions.len()}));
    m.rep.sample(json!({"format":"message","tags": msgs.iter().map(|(n, b)| format!("{}:{}", b[0], n)).collect::<Vec<_>>()}));
    let _ = a_to_b58(&corpus.builder.actors[0].pk);
}

fn a_to_b58(pk: &PK) -> String {
    pk.to_base58()
}
