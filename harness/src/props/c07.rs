//! C07 — every block the node's own producer assembles is accepted by that node and by any
//! other node holding the same chain.
use saito_core::core::consensus::block::Block;
use saito_core::core::consensus::transaction::TransactionType;
use serde_json::json;

use crate::chain::BlockSpec;
use crate::history::{History, HistoryCfg};
use crate::props::c02::{regimes, Regime};
use crate::props::Ctx;
use crate::report::Report;
use crate::rng::Rng;
use crate::world::*;

/// header fields of `block` that differ from freshly generated consensus values on `node`
pub async fn disagreeing_fields(node: &LNode, block: &Block) -> Vec<String> {
    let cfg = node.cfg.read().await;
    let chain = node.chain.read().await;
    let mut b = block.clone();
    let _ = b.generate();
    let cv = b.generate_consensus_values(&chain, &node.storage, &*cfg).await;
    let mut d = vec![];
    let mut cmp = |name: &str, header: u64, expected: u64| {
        if header != expected {
            d.push(format!("{} header={} expected={}", name, header, expected));
        }
    };
    cmp("total_fees", b.total_fees, cv.total_fees);
    cmp("total_fees_new", b.total_fees_new, cv.total_fees_new);
    cmp("total_fees_atr", b.total_fees_atr, cv.total_fees_atr);
    cmp("total_fees_cumulative", b.total_fees_cumulative, cv.total_fees_cumulative);
    cmp("avg_total_fees", b.avg_total_fees, cv.avg_total_fees);
    cmp("avg_total_fees_new", b.avg_total_fees_new, cv.avg_total_fees_new);
    cmp("avg_total_fees_atr", b.avg_total_fees_atr, cv.avg_total_fees_atr);
    cmp("total_payout_routing", b.total_payout_routing, cv.total_payout_routing);
    cmp("total_payout_mining", b.total_payout_mining, cv.total_payout_mining);
    cmp("total_payout_treasury", b.total_payout_treasury, cv.total_payout_treasury);
    cmp("total_payout_graveyard", b.total_payout_graveyard, cv.total_payout_graveyard);
    cmp("total_payout_atr", b.total_payout_atr, cv.total_payout_atr);
    cmp("avg_payout_routing", b.avg_payout_routing, cv.avg_payout_routing);
    cmp("avg_payout_mining", b.avg_payout_mining, cv.avg_payout_mining);
    cmp("avg_payout_treasury", b.avg_payout_treasury, cv.avg_payout_treasury);
    cmp("avg_payout_graveyard", b.avg_payout_graveyard, cv.avg_payout_graveyard);
    cmp("avg_payout_atr", b.avg_payout_atr, cv.avg_payout_atr);
    cmp("avg_fee_per_byte", b.avg_fee_per_byte, cv.avg_fee_per_byte);
    cmp("fee_per_byte", b.fee_per_byte, cv.fee_per_byte);
    cmp("avg_nolan_rebroadcast_per_block", b.avg_nolan_rebroadcast_per_block, cv.avg_nolan_rebroadcast_per_block);
    cmp("burnfee", b.burnfee, cv.burnfee);
    cmp("difficulty", b.difficulty, cv.difficulty);
    cmp("total_rebroadcast_slips", b.total_rebroadcast_slips, cv.total_rebroadcast_slips);
    if b.rebroadcast_hash != cv.rebroadcast_hash {
        d.push("rebroadcast_hash".to_string());
    }
    if let Some(prev) = chain.blocks.get(&b.previous_block_hash) {
        let t = prev.treasury as i128 + cv.total_payout_treasury as i128 - cv.total_payout_atr as i128;
        if b.treasury as i128 != t {
            d.push(format!("treasury header={} expected={}", b.treasury, t));
        }
        let g = prev.graveyard as u128 + cv.total_payout_graveyard as u128;
        if b.graveyard as u128 != g {
            d.push(format!("graveyard header={} expected={}", b.graveyard, g));
        }
    }
    d
}

async fn run_history(reg: &Regime, rng: &mut Rng, rep: &mut Report) {
    let gp = reg.cfg.params.gp;
    let mut h = History::new(reg.cfg.clone()).await;
    rep.count(&format!("histories.{}", reg.name));
    for i in 0..reg.blocks {
        // vary the timestamp offset from the parent over the interesting points of the curve
        let hb = reg.cfg.params.heartbeat;
        h.cfg.gaps = vec![2 * hb, 2 * hb + 1, 3 * hb, 10 * hb, 2 * hb + (i as u64 % 7) * 131];
        let parent = h.head;
        let txs = h.pick_txs(rng, &parent);
        let with_gt = h.pick_gt(rng, &parent);
        let gap = *rng.pick(&h.cfg.gaps);
        let spec = BlockSpec { gap, txs, with_gt, gt_miner: rng.below(reg.cfg.n_actors as u64) as usize };
        rep.eval();
        let id = h.b.store.get(&parent).id + 1;
        let wrapped = id > gp + 1;
        rep.nontrivial(&format!("{}|{}|{}|{}|{}|{}", reg.name, gp, id, with_gt, spec.txs.len(), gap));
        // produce without adding, so that the refusal can be examined on the producer itself
        let produced = h.b.produce(rng, &parent, &spec).await;
        let (block, mut producer) = match produced {
            Ok(x) => x,
            Err(e) => {
                // Block::create returned an error for an honest pool: a non-event for C07
                rep.count("create_returned_error");
                rep.note(&format!("[{}] Block::create: {}", reg.name, &e[..e.len().min(120)]));
                return;
            }
        };
        rep.count("produced_blocks");
        if wrapped {
            rep.count("produced_after_window_wrapped");
        }
        if with_gt {
            rep.count("produced_with_gt");
        }
        {
            let pb = &h.b.store.get(&parent).block;
            let staked = gp as u128 * pb.avg_nolan_rebroadcast_per_block as u128;
            if wrapped && staked > 0 && pb.treasury as u128 / staked >= 1 {
                rep.count("produced_with_atr_multiplier_gt1");
            }
        }
        let hsh = h.b.store.put(&block, true, "honest");
        let bytes = h.b.store.get(&hsh).bytes.clone();
        let r = crate::panics::catch_async(producer.add_bytes(&bytes)).await;
        let witness = |h: &History| {
            json!({"kind":"history","regime":reg.name,"params":reg.cfg.params.describe(),
                   "chain_hex": h.b.store.ancestors(&hsh).iter().map(|x| hex::encode(&h.b.store.get(x).bytes)).collect::<Vec<_>>()})
        };
        match r {
            Ok(Some(Added::Ok(true))) => {}
            Ok(other) => {
                // examine on a fresh node sitting on the parent
                h.b.store.map.get_mut(&hsh).unwrap().valid = false;
                let judge = h.b.fresh_replica(&parent, &h.b.actors[2].clone()).await;
                let fields = disagreeing_fields(&judge, &block).await;
                // chain-state class: is the ATR payout multiplier of this block > 1 ?
                let pb = &h.b.store.get(&parent).block;
                let staked = gp as u128 * pb.avg_nolan_rebroadcast_per_block as u128;
                let state = if wrapped && staked > 0 && pb.treasury as u128 / staked >= 1 { "atr-payout-multiplier-gt1" } else { "ordinary" };
                rep.violation(
                    &format!("C07|clause=producer-refuses-own-block|state={}", state),
                    &format!("[{} gp={}] block {} (gt={}, {} txs) built by Block::create is refused by its own producer ({:?}); disagreeing header fields: {:?}", reg.name, gp, id, with_gt, block.transactions.len(), other.map(|x| x.short()), fields),
                    witness(&h),
                );
                return;
            }
            Err(p) => {
                rep.violation(
                    &format!("C07|clause=producer-panics-on-own-block|regime={}|{}", reg.name, p.signature()),
                    &format!("[{} gp={}] adding its own block {} panicked: {}", reg.name, gp, id, p.message),
                    witness(&h),
                );
                return;
            }
        }
        h.b.keep_producer(hsh, producer);
        h.head = hsh;
        let r = crate::panics::catch_async(h.replica.add_bytes(&bytes)).await;
        match r {
            Ok(Some(Added::Ok(true))) => rep.count("accepted_by_replica"),
            Ok(other) => {
                let fields = disagreeing_fields(&h.replica, &block).await;
                rep.violation(
                    &format!("C07|clause=replica-refuses|regime={}", reg.name),
                    &format!("[{} gp={}] block {} accepted by its producer is refused by an independent replica ({:?}); fields: {:?}", reg.name, gp, id, other.map(|x| x.short()), fields),
                    witness(&h),
                );
                return;
            }
            Err(p) => {
                rep.violation(
                    &format!("C07|clause=replica-panics|regime={}|{}", reg.name, p.signature()),
                    &format!("[{} gp={}] replica panicked on honest block {}: {}", reg.name, gp, id, p.message),
                    witness(&h),
                );
                return;
            }
        }
    }
}

/// the node's own production path, end to end: transactions enter the pool through
/// add_transaction_if_validates, `Mempool::bundle_block` selects the staking transaction and
/// calls Block::create, and the node then adds its own block. Staking on, with the stake lock
/// period spanning the whole window (gp + 1) or short (3), on chains of 3 x gp blocks.
async fn bundle_path(rng: &mut Rng, rep: &mut Report, gp: u64, stake_period: u64) {
    use crate::chain::Builder;
    use std::ops::Deref;
    let mut params = Params::with_gp(gp);
    params.stake = 10_000;
    params.stake_period = stake_period;
    let mut b = Builder::new(&params, 5, &crate::corpus::default_issuance(5)).await;
    let mut node = LNode::new(&b.actors[0].clone(), &params);
    let mut replica = LNode::new(&b.actors[3].clone(), &params);
    let g = b.store.get(&b.genesis).bytes.clone();
    node.add_bytes(&g).await;
    replica.add_bytes(&g).await;
    let mut tip = b.genesis;
    let hb = params.heartbeat;
    rep.count("bundle_path_histories");
    for i in 0..(3 * gp + 3) {
        let id = b.store.get(&tip).id + 1;
        // a couple of fee-paying payments by other actors reach the pool
        let mut ex = vec![];
        for k in 0..2u64 {
            let from = 1 + ((i + k) % 4) as usize;
            if let Some(tx) = b.payment(rng, &tip, from, 1 + ((i + k + 1) % 4) as usize, 200 + i, 2_000, &mut ex) {
                let chain = node.chain.read().await;
                let mut pool = node.mempool.write().await;
                pool.add_transaction_if_validates(tx, &chain).await;
            }
        }
        // transactions of kinds that only the producer itself may put into a block (issuance, fee,
        // rebroadcast, placeholder) are offered like any payment: if the pool takes one, the next
        // bundle carries it and the node refuses its own block
        if i % 3 == 1 {
            use saito_core::core::consensus::transaction::{Transaction, TransactionType};
            let mut odd = match (i / 3) % 4 {
                0 => Transaction::create_issuance_transaction(b.actors[2].pk, 1_000 + i),
                k => {
                    let mut t = build_tx(&b.actors[2].clone(), &[], &[(b.actors[2].pk, 0)], b.store.get(&tip).ts + 4 + i, b"odd");
                    t.transaction_type = match k {
                        1 => TransactionType::Fee,
                        2 => TransactionType::ATR,
                        _ => TransactionType::SPV,
                    };
                    t.sign(&b.actors[2].sk);
                    t
                }
            };
            odd.generate(&b.actors[0].pk, 0, 0);
            let chain = node.chain.read().await;
            let mut pool = node.mempool.write().await;
            let before = pool.transactions.len();
            pool.add_transaction_if_validates(odd, &chain).await;
            rep.count("producer_only_kinds_offered_to_the_pool");
            if pool.transactions.len() > before {
                rep.count("producer_only_kinds_pooled");
            }
        }
        let need_gt = !crate::history::density_ok(&b, &tip, false) || id % 2 == 0;
        let gt = if need_gt {
            let ticket = mine_gt(rng, tip, b.store.get(&tip).block.difficulty, &b.actors[1].pk);
            let mut t = gt_tx(&ticket, &b.actors[1].clone());
            t.generate(&b.actors[1].pk, 0, 0);
            Some(t)
        } else {
            None
        };
        let ts = b.store.get(&tip).ts + 2 * hb + 6_000;
        let bundled = {
            let cfg = node.cfg.read().await;
            let chain = node.chain.read().await;
            let mut pool = node.mempool.write().await;
            crate::panics::catch_async(pool.bundle_block(&chain, ts, gt, cfg.deref(), &node.storage)).await
        };
        rep.eval();
        let block = match bundled {
            Err(p) => {
                rep.violation(&format!("C07|clause=bundle-panics|{}", p.signature()), &format!("[bundle-path gp={} stake-period={}] bundle_block panicked at block {}: {}", gp, stake_period, id, p.message), json!({"kind":"bundle-path","gp":gp,"stake_period":stake_period}));
                return;
            }
            Ok(None) => {
                rep.count("bundle_path_no_block");
                return;
            }
            Ok(Some(bl)) => bl,
        };
        rep.count("bundle_path_blocks");
        if block.transactions.iter().any(|t| t.transaction_type == TransactionType::BlockStake) {
            rep.count("bundle_path_blocks_with_staking_tx");
        }
        if id > gp + 1 {
            rep.count("bundle_path_blocks_after_window_wrapped");
        }
        rep.nontrivial(&format!("bundle|{}|{}|{}|{}", gp, stake_period, id, block.transactions.len()));
        let bytes = block_bytes(&block);
        let witness = json!({"kind":"bundle-path","gp":gp,"stake_period":stake_period,"block_hex":hex::encode(&bytes),"chain_hex": b.store.ancestors(&tip).iter().map(|x| hex::encode(&b.store.get(x).bytes)).collect::<Vec<_>>()});
        match crate::panics::catch_async(node.add_bytes(&bytes)).await {
            Ok(Some(Added::Ok(true))) => {}
            Ok(other) => {
                rep.violation(
                    &format!("C07|clause=producer-refuses-own-block|path=bundle_block|staking-lock={}", if stake_period > gp { "spans-window" } else { "short" }),
                    &format!("[bundle-path gp={} stake-period={}] block {} ({} txs, staking tx present: {}) bundled by the node is refused by the node itself ({:?})", gp, stake_period, id, block.transactions.len(), block.transactions.iter().any(|t| t.transaction_type == TransactionType::BlockStake), other.map(|x| x.short())),
                    witness,
                );
                return;
            }
            Err(p) => {
                rep.violation(&format!("C07|clause=producer-panics-on-own-block|path=bundle_block|{}", p.signature()), &format!("[bundle-path gp={}] adding its own block {} panicked: {}", gp, id, p.message), witness);
                return;
            }
        }
        match crate::panics::catch_async(replica.add_bytes(&bytes)).await {
            Ok(Some(Added::Ok(true))) => rep.count("bundle_path_accepted_by_replica"),
            other => {
                rep.violation("C07|clause=replica-refuses|path=bundle_block", &format!("[bundle-path gp={} stake-period={}] block {} accepted by its producer is refused by a replica ({:?})", gp, stake_period, id, other.map(|x| x.map(|y| y.short())).map_err(|p| p.message)), witness);
                return;
            }
        }
        tip = b.store.put_bytes(bytes, true, "own");
    }
}

pub async fn run(ctx: &Ctx, rep: &mut Report) {
    let mut rng = ctx.rng();
    for (i, (gp, sp)) in [(6u64, 7u64), (6, 3), (8, 9), (10, 11), (8, 3), (10, 3)].iter().enumerate() {
        for rpt in 0..ctx.scale(2, 10) {
            if ctx.mine(i as u64 + 6 * rpt) {
                bundle_path(&mut rng, rep, *gp, *sp).await;
            }
        }
    }
    let mut all = regimes(&mut Rng::new(ctx.seed ^ 7), ctx.thorough);
    let repeats = ctx.scale(6, 30);
    let mut work = 0u64;
    for _ in 0..repeats {
        for reg in all.iter_mut() {
            work += 1;
            if !ctx.mine(work) {
                continue;
            }
            run_history(reg, &mut rng, rep).await;
        }
    }
    let _ = HistoryCfg::basic(Params::default());
    rep.sample(json!({"meaning":"producer = Block::create on the builder's node for random pools (fees, 0..3 hops, several payers, golden ticket present/absent, timestamp offsets 2h, 2h+1, 3h, 10h); the block must be accepted by the producing node and by a replica fed the same chain as bytes"}));
}
