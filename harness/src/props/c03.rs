//! C03 — ledger state equals a replay of the longest chain; index, flags and tip agree.
use serde_json::json;

use crate::chain::{BlockSpec, Builder};
use crate::corpus::default_issuance;
use crate::monitors::{check_consistency, short};
use crate::props::Ctx;
use crate::report::Report;
use crate::rng::Rng;
use crate::world::*;

/// a block tree over the genesis block (node 0); parents[i] is the parent of node i+1
pub struct Tree {
    pub parents: Vec<usize>,
    /// hashes[0] = genesis
    pub hashes: Vec<Hash>,
}

pub fn parent_vectors(n: usize) -> Vec<Vec<usize>> {
    let mut out: Vec<Vec<usize>> = vec![vec![]];
    for i in 1..=n {
        let mut next = vec![];
        for v in &out {
            for p in 0..i {
                let mut w = v.clone();
                w.push(p);
                next.push(w);
            }
        }
        out = next;
    }
    out
}

pub fn permutations(n: usize) -> Vec<Vec<usize>> {
    fn rec(cur: &mut Vec<usize>, used: &mut Vec<bool>, n: usize, out: &mut Vec<Vec<usize>>) {
        if cur.len() == n {
            out.push(cur.clone());
            return;
        }
        for i in 0..n {
            if !used[i] {
                used[i] = true;
                cur.push(i);
                rec(cur, used, n, out);
                cur.pop();
                used[i] = false;
            }
        }
    }
    let mut out = vec![];
    rec(&mut vec![], &mut vec![false; n], n, &mut out);
    out
}

/// build the blocks of a tree shape with the honest producer: one payment per block, a golden
/// ticket in every block of even id (satisfies the density rule, keeps difficulty at 0)
pub async fn build_tree(b: &mut Builder, rng: &mut Rng, parents: &[usize], gap_of: impl Fn(usize) -> u64) -> Option<Tree> {
    let mut hashes = vec![b.genesis];
    for (i, p) in parents.iter().enumerate() {
        let parent = hashes[*p];
        let id = b.store.get(&parent).id + 1;
        let mut exclude = vec![];
        let from = (i + id as usize) % b.actors.len();
        let to = (i + 1) % b.actors.len();
        let mut txs = vec![];
        if let Some(tx) = b.payment(rng, &parent, from, to, 100 + i as u64, 10 + i as u64, &mut exclude) {
            txs.push(tx);
        } else {
            txs.push(build_tx(&b.actors[from], &[], &[], b.store.get(&parent).ts + 3 + i as u64, b"noop"));
        }
        let spec = BlockSpec { gap: gap_of(i), txs, with_gt: id % 2 == 0, gt_miner: i % b.actors.len() };
        match b.extend(rng, &parent, &spec).await {
            Ok(h) => hashes.push(h),
            Err(e) => {
                eprintln!("tree build failed: {}", e);
                return None;
            }
        }
    }
    Some(Tree { parents: parents.to_vec(), hashes })
}

#[derive(Clone, Debug)]
pub enum Delivery {
    Block(usize),
    /// same block again
    Duplicate(usize),
    /// a copy of node i with a corrupted creator signature (hash unchanged)
    BadSignature(usize),
    /// a re-signed copy of node i with a bumped treasury: another hash, same parent and height,
    /// indexed like any block and refused only when it is validated for the longest chain
    InvalidSibling(usize),
    /// a re-signed copy of node i whose id is one too high (parent's id + 2): on the longest
    /// chain it would leave a hole in the by-height index
    IdSkip(usize),
}

fn describe(order: &[Delivery]) -> String {
    order
        .iter()
        .map(|d| match d {
            Delivery::Block(i) => format!("{}", i),
            Delivery::Duplicate(i) => format!("{}dup", i),
            Delivery::BadSignature(i) => format!("{}badsig", i),
            Delivery::InvalidSibling(i) => format!("{}invalid-sibling", i),
            Delivery::IdSkip(i) => format!("{}id-skip", i),
        })
        .collect::<Vec<_>>()
        .join(",")
}

pub fn delivery_class(tree: &Tree, order: &[Delivery]) -> String {
    let mut seen = vec![false; tree.hashes.len()];
    seen[0] = true;
    let mut parent_first = true;
    let mut extras = vec![];
    for d in order {
        match d {
            Delivery::Block(i) => {
                if !seen[tree.parents[*i - 1]] {
                    parent_first = false;
                }
                seen[*i] = true;
            }
            Delivery::Duplicate(i) => {
                if !seen[tree.parents[*i - 1]] {
                    parent_first = false;
                }
                // an early "duplicate" is simply the first delivery of that block
                seen[*i] = true;
                if !extras.contains(&"dup") {
                    extras.push("dup")
                }
            }
            Delivery::BadSignature(i) => {
                if !seen[tree.parents[*i - 1]] {
                    parent_first = false;
                }
                if !extras.contains(&"badsig") {
                    extras.push("badsig")
                }
            }
            Delivery::InvalidSibling(i) | Delivery::IdSkip(i) => {
                if !seen[tree.parents[*i - 1]] {
                    parent_first = false;
                }
                if !extras.contains(&"invalid-sibling") {
                    extras.push("invalid-sibling")
                }
            }
        }
    }
    let missing = (1..tree.hashes.len()).any(|i| !seen[i]);
    let mut s = if parent_first { "parent-first".to_string() } else { "child-before-parent".to_string() };
    if missing {
        s.push_str("+missing-block");
    }
    for e in extras {
        s.push('+');
        s.push_str(e);
    }
    s
}

pub struct Outcome {
    pub tip_changes: u64,
    pub reorg_depth_max: u64,
}

/// deliver to a fresh node, running the consistency monitor after every delivery
pub async fn run_case(b: &mut Builder, tree: &Tree, order: &[Delivery], params: &Params, rep: &mut Report, prop: &str) -> Outcome {
    let mut node = LNode::new(&b.actors[1], params);
    let g = b.store.get(&b.genesis).bytes.clone();
    node.add_bytes(&g).await;
    let class = delivery_class(tree, order);
    let mut out = Outcome { tip_changes: 0, reorg_depth_max: 0 };
    let mut results = vec![];
    rep.eval();
    // set once a block whose parent the node does not hold has been processed under the
    // realistic configuration (initial_loading_completed = false): the 'out-of-order' branch of
    // add_block then rewrites the longest-chain index (one root cause, many symptoms)
    let mut tainted = false;
    let mut taint_rel = "";
    for (step, d) in order.iter().enumerate() {
        let (before_id, before_hash) = node.tip().await;
        {
            let idx = match d {
                Delivery::Block(i) | Delivery::Duplicate(i) | Delivery::BadSignature(i) | Delivery::InvalidSibling(i) | Delivery::IdSkip(i) => *i,
            };
            let parent_hash = tree.hashes[tree.parents[idx - 1]];
            let held = node.chain.read().await.blocks.contains_key(&parent_hash);
            if !held && !params.loading_completed {
                if !tainted {
                    rep.count("cases_with_parentless_delivery");
                }
                // where the latest parentless block sits relative to the node's tip: the
                // out-of-order branch treats these differently
                let id = b.store.get(&tree.hashes[idx]).id;
                taint_rel = if id < before_id { "below-tip" } else if id == before_id { "at-tip-height" } else { "above-tip" };
                tainted = true;
            }
        }
        let bytes = match d {
            Delivery::Block(i) | Delivery::Duplicate(i) => b.store.get(&tree.hashes[*i]).bytes.clone(),
            Delivery::BadSignature(i) => {
                let mut bytes = b.store.get(&tree.hashes[*i]).bytes.clone();
                bytes[117 + 5] ^= 0x40; // inside the 64-byte creator signature
                bytes
            }
            Delivery::InvalidSibling(i) => {
                let mut blk = b.store.get(&tree.hashes[*i]).block.clone();
                let creator = b.actors[0].clone();
                blk.treasury += 1;
                crate::props::c04::reseal(&mut blk, &creator, false);
                rep.count("invalid_sibling_deliveries");
                block_bytes(&blk)
            }
            Delivery::IdSkip(i) => {
                let mut blk = b.store.get(&tree.hashes[*i]).block.clone();
                let creator = b.actors[0].clone();
                blk.id += 1;
                crate::props::c04::reseal(&mut blk, &creator, false);
                rep.count("id_skipping_deliveries");
                block_bytes(&blk)
            }
        };
        let r = crate::panics::catch_async(node.add_bytes(&bytes)).await;
        let r = match r {
            Ok(r) => r,
            Err(p) => {
                rep.violation(
                    &format!("{}|clause=panic|delivery={}|{}", prop, class, p.signature()),
                    &format!("add_block panicked: {} at {}:{}", p.message, p.rel_file(), p.line),
                    replay_json(b, tree, order, params, step),
                );
                return out;
            }
        };
        results.push(r.clone().map(|x| x.short()).unwrap_or("undecodable"));
        // reading the tip can itself panic when the index is corrupt
        let (after_id, after_hash) = match crate::panics::catch_async(node.tip()).await {
            Ok(t) => t,
            Err(p) => {
                rep.violation(
                    &format!("{}|clause=tip-getter-panics|delivery={}|{}", prop, class, p.signature()),
                    &format!("after delivery #{} of [{}] (results {:?}) reading the tip panicked: {} at {}:{}", step, describe(order), results, p.message, p.rel_file(), p.line),
                    replay_json(b, tree, order, params, step),
                );
                return out;
            }
        };
        if after_hash != before_hash {
            out.tip_changes += 1;
            rep.count("tip_changes");
            // reorg depth: blocks of the old chain that left the longest chain
            if b.store.has(&before_hash) && b.store.has(&after_hash) && !b.store.is_ancestor(&before_hash, &after_hash) {
                let mut depth = 0;
                let mut cur = before_hash;
                while !b.store.is_ancestor(&cur, &after_hash) {
                    depth += 1;
                    cur = b.store.get(&cur).prev;
                    if cur == [0; 32] {
                        break;
                    }
                }
                rep.count("reorgs");
                if depth >= 2 {
                    rep.count("reorgs_depth_ge2");
                }
                out.reorg_depth_max = out.reorg_depth_max.max(depth);
                rep.max("reorg_depth", depth);
            }
        }
        let _ = (before_id, after_id);
        // a tip whose ancestry the node does not hold (parent never delivered / delivered later):
        // one root cause, reported once, and nothing after it can be compared with a replay
        if after_hash != before_hash && b.store.has(&after_hash) {
            let held: Vec<Hash> = {
                let chain = node.chain.read().await;
                b.store.ancestors(&after_hash).into_iter().filter(|h| chain.blocks.contains_key(h)).collect()
            };
            let anc = b.store.ancestors(&after_hash);
            let complete = b.store.get(&anc[0]).prev == [0; 32];
            if held.len() != anc.len() || !complete {
                rep.count("disconnected_adoptions");
                rep.violation(
                    &format!("{}|clause=disconnected-chain-adopted", prop),
                    &format!(
                        "after delivery #{} of [{}] (results {:?}) the tip moved to block {} although the node holds only {} of its {} ancestors (class {})",
                        step, describe(order), results, b.store.get(&after_hash).id, held.len(), anc.len(), class
                    ),
                    replay_json(b, tree, order, params, step),
                );
                return out;
            }
        }
        let findings = {
            let chain = node.chain.read().await;
            match crate::panics::catch(|| check_consistency(&chain, &mut b.store, params.gp)) {
                Ok(f) => f,
                Err(p) => vec![crate::monitors::Finding { clause: "state-getter-panics", detail: format!("{} at {}:{}", p.message, p.rel_file(), p.line) }],
            }
        };
        rep.count("consistency_checks");
        if !findings.is_empty() {
            for f in findings {
                let sig = if tainted {
                    format!("{}|clause=state-damaged-after-parentless-block|latest-parentless-block={}", prop, taint_rel)
                } else {
                    format!("{}|clause={}|delivery={}", prop, f.clause, class)
                };
                rep.violation(
                    &sig,
                    &format!("after delivery #{} of [{}] (results {:?}): {}", step, describe(order), results, f.detail),
                    replay_json(b, tree, order, params, step),
                );
            }
            // one inconsistent state poisons everything after it; stop this case
            return out;
        }
    }
    out
}

fn replay_json(b: &Builder, tree: &Tree, order: &[Delivery], params: &Params, step: usize) -> serde_json::Value {
    json!({
        "kind": "tree-delivery",
        "params": params.describe(),
        "parents": tree.parents,
        "order": describe(order),
        "failed_at_step": step,
        "genesis_hex": hex::encode(&b.store.get(&b.genesis).bytes),
        "blocks_hex": tree.hashes.iter().skip(1).map(|h| hex::encode(&b.store.get(h).bytes)).collect::<Vec<_>>(),
    })
}

pub async fn run(ctx: &Ctx, rep: &mut Report) {
    let mut rng = ctx.rng();
    let n_actors = 4;
    let max_n = ctx.scale(5, 6) as usize;
    let mut work = 0u64;
    rep.exhaustive = true;
    // (loaded, prune_after): with prune_after 2 the blocks a reorganisation unwinds have already
    // dropped their transactions in memory and must be reloaded from storage first
    for (loaded, prune_after) in [(false, 8u64), (true, 8), (true, 2)] {
        let mut params = Params::with_gp(20);
        params.loading_completed = loaded;
        params.prune_after = prune_after;
        for n in 1..=max_n {
            for parents in parent_vectors(n) {
                work += 1;
                if !ctx.mine(work) {
                    continue;
                }
                let mut b = Builder::new(&params, n_actors, &default_issuance(n_actors)).await;
                let hb = params.heartbeat;
                let tree = match build_tree(&mut b, &mut rng, &parents, |i| 2 * hb + (i as u64 % 3) * 777).await {
                    Some(t) => t,
                    None => {
                        rep.inconclusive("tree could not be built");
                        continue;
                    }
                };
                rep.count("trees");
                for perm in permutations(n) {
                    let order: Vec<Delivery> = perm.iter().map(|i| Delivery::Block(i + 1)).collect();
                    rep.nontrivial(&format!("{}|{}|{:?}|{:?}", loaded, prune_after, parents, perm));
                    run_case(&mut b, &tree, &order, &params, rep, "C03").await;
                    rep.count(&format!("cases.{}", delivery_class(&tree, &order)));
                }
                // injected duplicates / invalid copies / withheld blocks at every position
                let base: Vec<usize> = (1..=n).collect();
                for pos in 0..=n {
                    for kind in 0..5 {
                        let mut order: Vec<Delivery> = base.iter().map(|i| Delivery::Block(*i)).collect();
                        let target = 1 + (pos + kind) % n;
                        match kind {
                            0 => order.insert(pos, Delivery::Duplicate(target)),
                            1 => order.insert(pos, Delivery::BadSignature(target)),
                            3 => order.insert(pos, Delivery::InvalidSibling(target)),
                            4 => order.insert(pos, Delivery::IdSkip(target)),
                            _ => {
                                if pos < n {
                                    order.remove(pos);
                                } else {
                                    continue;
                                }
                            }
                        }
                        rep.nontrivial(&format!("{}|{}|{:?}|inj{}-{}", loaded, prune_after, parents, pos, kind));
                        run_case(&mut b, &tree, &order, &params, rep, "C03").await;
                        rep.count(&format!("cases.{}", delivery_class(&tree, &order)));
                    }
                }
            }
        }
    }
    // random: longer trees, back-and-forth reorgs between two growing forks
    let rounds = ctx.scale(400, 4000) / ctx.shards.max(1);
    for r in 0..rounds {
        let mut params = Params::with_gp(if r % 3 == 0 { 6 } else { 20 });
        params.loading_completed = r % 2 == 0;
        params.prune_after = if r % 4 < 2 { 2 } else { 8 };
        if params.prune_after == 2 {
            rep.count("random_trees_with_early_pruning");
        }
        let mut b = Builder::new(&params, n_actors, &default_issuance(n_actors)).await;
        let n = 6 + rng.below(if ctx.thorough { 30 } else { 10 }) as usize;
        // two forks growing alternately from a random fork point, plus random side branches
        let mut parents: Vec<usize> = vec![];
        let trunk = 1 + rng.below(3) as usize;
        for i in 0..trunk {
            parents.push(i);
        }
        let (mut a, mut c) = (trunk, trunk);
        for i in trunk..n {
            let node = i + 1;
            match rng.below(5) {
                0 | 1 => {
                    parents.push(a);
                    a = node;
                }
                2 | 3 => {
                    parents.push(c);
                    c = node;
                }
                _ => parents.push(rng.below(node as u64) as usize),
            }
        }
        let hb = params.heartbeat;
        let tree = match build_tree(&mut b, &mut rng, &parents, |i| 2 * hb + (i as u64 % 5) * 311).await {
            Some(t) => t,
            None => {
                rep.count("random_trees_not_built");
                continue;
            }
        };
        rep.count("random_trees");
        for variant in 0..3 {
            let mut idx: Vec<usize> = (1..=n).collect();
            match variant {
                0 => {}
                1 => {
                    // mostly in order with a few local swaps
                    for _ in 0..3 {
                        let i = rng.below(n as u64 - 1) as usize;
                        idx.swap(i, i + 1);
                    }
                }
                _ => rng.shuffle(&mut idx),
            }
            let mut order: Vec<Delivery> = idx.iter().map(|i| Delivery::Block(*i)).collect();
            if rng.chance(1, 2) {
                let pos = rng.below(order.len() as u64) as usize;
                let t = 1 + rng.below(n as u64) as usize;
                order.insert(pos, if rng.chance(1, 2) { Delivery::Duplicate(t) } else { Delivery::BadSignature(t) });
            }
            // invalid siblings of up to three blocks, anywhere in the order
            for _ in 0..rng.below(4) {
                let pos = rng.below(order.len() as u64 + 1) as usize;
                let t = 1 + rng.below(n as u64) as usize;
                order.insert(pos, if rng.chance(1, 4) { Delivery::IdSkip(t) } else { Delivery::InvalidSibling(t) });
            }
            rep.nontrivial(&format!("rand|{:?}|{}", parents, describe(&order)));
            run_case(&mut b, &tree, &order, &params, rep, "C03").await;
            rep.count(&format!("cases.{}", delivery_class(&tree, &order)));
        }
    }
    rep.sample(json!({"tree_parents":[0,1,1,2],"order":"3,1,4,2","meaning":"node i+1 has parent parents[i]; 0 is genesis; blocks carry one payment and a golden ticket when their id is even"}));
    let _ = short(&[0u8; 4]);
}
