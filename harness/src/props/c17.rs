//! C17 — the handshake authenticates the peer's key: a connection becomes Connected under key K
//! only through a response carrying a valid signature by K over an unconsumed challenge this
//! node issued on that very connection; failed responses disturb nothing else.
use std::collections::{BTreeMap, VecDeque};

use saito_core::core::consensus::peers::peer::PeerStatus;
use saito_core::core::io::network_event::NetworkEvent;
use saito_core::core::msg::handshake::{HandshakeChallenge, HandshakeResponse};
use saito_core::core::msg::message::Message;
use saito_core::core::process::version::Version;
use saito_core::core::util::configuration::PeerConfig;
use saito_core::core::util::crypto::{sign, verify};
use serde_json::json;

use crate::io::{MemIo, OutMsg};
use crate::node::Node;
use crate::props::Ctx;
use crate::report::Report;
use crate::rng::Rng;
use crate::world::*;

const A: usize = 0;
const B: usize = 1;

#[derive(Clone, Debug)]
struct Conn {
    /// honest endpoint: (node, local peer index)
    left: (usize, u64),
    /// the other endpoint: Some((node, index)) when honest, None when the attacker
    right: Option<(usize, u64)>,
    /// in flight towards left / right (honest-honest only; the attacker decides delivery)
    to_left: VecDeque<Vec<u8>>,
    to_right: VecDeque<Vec<u8>>,
    broken: bool,
}

#[derive(Clone, Debug)]
enum Action {
    /// deliver the next in-flight message of the honest connection towards endpoint (0=left,1=right)
    Deliver(usize, u8),
    Drop(usize, u8),
    /// inject bytes at honest endpoint (node, peer index); label for the trace
    Inject(usize, u64, Vec<u8>, String),
    /// the attacker breaks connection ci (both honest ends see a disconnect)
    Break(usize),
    /// the dialling side re-establishes connection ci (a static peer keeps its index)
    Redial(usize),
}

struct Issued {
    challenge: [u8; 32],
    consumed: bool,
}

struct Sim {
    nodes: Vec<Node>,
    conns: Vec<Conn>,
    /// per (node, peer index): challenges the node issued there, in order
    issued: BTreeMap<(usize, u64), Vec<Issued>>,
    /// everything the attacker has seen: (label, bytes)
    seen_msgs: Vec<(String, Vec<u8>)>,
    seen_challenges: Vec<[u8; 32]>,
    attacker_keys: Vec<Actor>,
    honest_keys: Vec<PK>,
    trace: Vec<String>,
    adversarial_deliveries: u64,
    /// PeerHandshakeComplete events collected since the last look: (node, peer index)
    completions: Vec<(usize, u64)>,
    next_incoming: u64,
}

fn peer_cfg(port: u16) -> PeerConfig {
    PeerConfig { host: "127.0.0.1".to_string(), port, protocol: "http".to_string(), synctype: "full".to_string() }
}

impl Sim {
    async fn new(rep: &mut Report) -> Option<Sim> {
        let all = actors(8);
        let params = Params::with_gp(50);
        let clock = VClock::new(T0);
        let a = Node::new(&all[0], &params, MemIo::new(), clock.clone(), vec![], "http://a.example:1");
        // B dials A (static peer 1) and the attacker's address (static peer 2)
        let b = Node::new(&all[1], &params, MemIo::new(), clock.clone(), vec![peer_cfg(1), peer_cfg(2)], "http://b.example:1");
        let mut sim = Sim {
            nodes: vec![a, b],
            conns: vec![
                Conn { left: (A, 10), right: Some((B, 1)), to_left: VecDeque::new(), to_right: VecDeque::new(), broken: false },
                Conn { left: (A, 11), right: None, to_left: VecDeque::new(), to_right: VecDeque::new(), broken: false },
                Conn { left: (B, 12), right: None, to_left: VecDeque::new(), to_right: VecDeque::new(), broken: false },
                Conn { left: (B, 2), right: None, to_left: VecDeque::new(), to_right: VecDeque::new(), broken: false },
            ],
            issued: BTreeMap::new(),
            seen_msgs: vec![],
            seen_challenges: vec![],
            attacker_keys: vec![all[2].clone(), all[3].clone()],
            honest_keys: vec![all[0].pk, all[1].pk],
            trace: vec![],
            adversarial_deliveries: 0,
            completions: vec![],
            next_incoming: 30,
        };
        for n in sim.nodes.iter_mut() {
            if n.init().await.is_err() {
                rep.inconclusive("node init panicked");
                return None;
            }
        }
        // connections come up: incoming ones at A (10, 11) and B (12), outgoing ones of B (1, 2)
        for (node, idx) in [(A, 10u64), (B, 1), (A, 11), (B, 12), (B, 2)] {
            let r = sim.nodes[node].net(NetworkEvent::PeerConnectionResult { result: Ok((idx, Some("10.0.0.1".to_string()))) }).await;
            if r.is_err() {
                rep.inconclusive("connection setup panicked");
                return None;
            }
            sim.collect(node);
        }
        Some(sim)
    }

    fn conn_of(&self, node: usize, idx: u64) -> Option<(usize, u8)> {
        for (ci, c) in self.conns.iter().enumerate() {
            if c.left == (node, idx) {
                return Some((ci, 0));
            }
            if c.right == Some((node, idx)) {
                return Some((ci, 1));
            }
        }
        None
    }

    /// move what `node` sent into the network; record issued challenges; let the attacker observe
    fn collect(&mut self, node: usize) {
        let out = self.nodes[node].io.take_outbox();
        let _ = self.nodes[node].io.take_disconnects();
        for e in self.nodes[node].io.take_events() {
            if let crate::io::IfEvent::PeerHandshakeComplete(i) = e {
                self.completions.push((node, i));
            }
        }
        let _ = self.nodes[node].io.take_connects();
        for m in out {
            let (idx, bytes) = match m {
                OutMsg::To(i, b) => (i, b),
                OutMsg::All(..) => continue,
            };
            // what did the node commit to?
            if let Ok(msg) = Message::deserialize(bytes.clone()) {
                match &msg {
                    Message::HandshakeChallenge(c) => {
                        self.issued.entry((node, idx)).or_default().push(Issued { challenge: c.challenge, consumed: false });
                        self.seen_challenges.push(c.challenge);
                    }
                    Message::HandshakeResponse(r) => {
                        if r.challenge != [0; 32] {
                            self.issued.entry((node, idx)).or_default().push(Issued { challenge: r.challenge, consumed: false });
                            self.seen_challenges.push(r.challenge);
                        }
                    }
                    _ => {}
                }
            }
            self.seen_msgs.push((format!("from-n{}p{}-tag{}", node, idx, bytes[0]), bytes.clone()));
            if let Some((ci, side)) = self.conn_of(node, idx) {
                let c = &mut self.conns[ci];
                if c.right.is_some() {
                    if side == 0 {
                        c.to_right.push_back(bytes);
                    } else {
                        c.to_left.push_back(bytes);
                    }
                }
            }
        }
    }

    fn snapshot(&self, node: usize) -> impl std::future::Future<Output = (BTreeMap<u64, (bool, Option<PK>)>, BTreeMap<Vec<u8>, u64>)> + '_ {
        async move {
            let peers = self.nodes[node].peers.read().await;
            let st = peers.index_to_peers.iter().map(|(i, p)| (*i, (matches!(p.peer_status, PeerStatus::Connected), p.public_key))).collect();
            let addr = peers.address_to_peers.iter().map(|(k, v)| (k.to_vec(), *v)).collect();
            (st, addr)
        }
    }

    /// deliver `bytes` to honest (node, idx) and judge the transition
    async fn deliver(&mut self, node: usize, idx: u64, bytes: Vec<u8>, adversarial: bool, label: &str, rep: &mut Report) -> bool {
        let (before, addr_before) = self.snapshot(node).await;
        let parsed = Message::deserialize(bytes.clone()).ok();
        self.trace.push(format!("n{}p{}<-{}", node, idx, label));
        rep.count("delivered_messages");
        if adversarial {
            self.adversarial_deliveries += 1;
            rep.count("adversarial_messages");
        }
        let witness = json!({"kind":"handshake","trace": self.trace});
        self.completions.clear();
        let r = self.nodes[node].net(NetworkEvent::IncomingNetworkMessage { peer_index: idx, buffer: bytes }).await;
        if let Err(p) = r {
            rep.violation(
                &format!("C17|clause=handler-panics|{}", p.signature()),
                &format!("handshake handler panicked: {} (trace {:?})", p.message, self.trace.iter().rev().take(10).collect::<Vec<_>>()),
                witness,
            );
            return false;
        }
        self.collect(node);
        let (after, addr_after) = self.snapshot(node).await;
        // newly connected / re-keyed peers
        for (p, (conn, key)) in after.iter() {
            let was = before.get(p).cloned().unwrap_or((false, None));
            let newly = *conn && (!was.0 || was.1 != *key);
            if !newly {
                continue;
            }
            rep.count("connected_transitions");
            let k = match key {
                Some(k) => *k,
                None => {
                    rep.violation("C17|clause=connected-without-key", "a peer is Connected without a public key", witness.clone());
                    return false;
                }
            };
            if *p != idx {
                rep.violation(
                    "C17|clause=connected-on-other-connection",
                    &format!("a message delivered on peer {} of node {} connected peer {} (trace {:?})", idx, node, p, self.trace.iter().rev().take(10).collect::<Vec<_>>()),
                    witness.clone(),
                );
                return false;
            }
            let resp = match &parsed {
                Some(Message::HandshakeResponse(r)) => r,
                _ => {
                    rep.violation("C17|clause=connected-without-response", &format!("node {} peer {} became Connected on a message that is not a handshake response (trace {:?})", node, p, self.trace.iter().rev().take(10).collect::<Vec<_>>()), witness.clone());
                    return false;
                }
            };
            // an incompatible core version never yields a connected peer
            {
                let mine = { self.nodes[node].wallet.read().await.core_version };
                if resp.core_version.major != mine.major || resp.core_version.minor != mine.minor {
                    rep.violation(
                        &format!("C17|clause=connected-despite-incompatible-version|adversarial={}", adversarial),
                        &format!("node {} (core {}.{}.{}) marked peer {} Connected on a response announcing core version {}.{}.{} (trace {:?})", node, mine.major, mine.minor, mine.patch, p, resp.core_version.major, resp.core_version.minor, resp.core_version.patch, self.trace.iter().rev().take(10).collect::<Vec<_>>()),
                        witness.clone(),
                    );
                    return false;
                }
            }
            let mut justified = false;
            let mut stale = false;
            if let Some(list) = self.issued.get_mut(&(node, *p)) {
                for (pos, iss) in list.iter_mut().enumerate() {
                    if resp.public_key == k && verify(&iss.challenge, &resp.signature, &k) {
                        if iss.consumed {
                            stale = true;
                            continue;
                        }
                        iss.consumed = true;
                        justified = true;
                        let _ = pos;
                        break;
                    }
                }
            }
            if !justified {
                let why = if stale { "challenge-accepted-twice" } else { "no-fresh-challenge-of-this-connection-signed-by-that-key" };
                rep.violation(
                    &format!("C17|clause=connected-unjustified|why={}|adversarial={}", why, adversarial),
                    &format!("node {} marked peer {} Connected under key {} but the response does not carry a valid signature by that key over an unconsumed challenge issued on that connection ({}; trace {:?})", node, p, actor_name(&actors(8), &k), why, self.trace.iter().rev().take(12).collect::<Vec<_>>()),
                    witness.clone(),
                );
                return false;
            }
            if self.honest_keys.contains(&k) && self.conn_of(node, *p).map(|(ci, _)| self.conns[ci].right.is_none()).unwrap_or(false) {
                rep.count("observation.attacker_connection_connected_under_honest_key");
            }
        }
        // an acceptance that changes no state (the peer was Connected under that key already) still
        // is an acceptance: every PeerHandshakeComplete needs its own unconsumed challenge
        let transitions = after.iter().filter(|(p, (conn, key))| {
            let was = before.get(*p).cloned().unwrap_or((false, None));
            *conn && (!was.0 || was.1 != *key)
        }).count();
        let completions: Vec<(usize, u64)> = self.completions.drain(..).filter(|(n, _)| *n == node).collect();
        rep.add("handshake_complete_events", completions.len() as u64);
        if completions.len() > transitions {
            for (_, p) in completions.iter().skip(transitions) {
                let mut justified = false;
                if let (Some(Message::HandshakeResponse(resp)), Some(list)) = (&parsed, self.issued.get_mut(&(node, *p))) {
                    for iss in list.iter_mut() {
                        if !iss.consumed && verify(&iss.challenge, &resp.signature, &resp.public_key) {
                            iss.consumed = true;
                            justified = true;
                            break;
                        }
                    }
                }
                if !justified {
                    rep.violation(
                        &format!("C17|clause=handshake-accepted-without-fresh-challenge|adversarial={}", adversarial),
                        &format!("node {} completed a handshake on peer {} (PeerHandshakeComplete) for a response that is not over an unconsumed challenge of that connection - the same response was accepted before (trace {:?})", node, p, self.trace.iter().rev().take(12).collect::<Vec<_>>()),
                        witness.clone(),
                    );
                    return false;
                }
            }
        }
        // the key index: a key never points at a connection that is authenticated under another key
        for (k, i) in addr_after.iter() {
            if let Some((true, Some(pk))) = after.get(i) {
                if pk.to_vec() != *k {
                    rep.violation(
                        "C17|clause=key-index-points-at-connection-of-another-key",
                        &format!("node {}: the key index maps {} to peer {}, which is Connected under {} (trace {:?})", node, hex::encode(&k[..4]), i, hex::encode(&pk[..4]), self.trace.iter().rev().take(12).collect::<Vec<_>>()),
                        witness.clone(),
                    );
                    return false;
                }
            }
        }
        rep.count("key_index_checks");
        // a message that did not connect its own peer must not disturb the other connections
        let own_connected = after.get(&idx).map(|x| x.0).unwrap_or(false) && !before.get(&idx).map(|x| x.0).unwrap_or(false);
        for (p, st) in before.iter() {
            if *p == idx {
                continue;
            }
            // a successful handshake may legitimately replace a DISCONNECTED entry of the same key
            // (reconnection); authenticated entries and anything after a failed message must not move
            let changed = after.get(p) != Some(st);
            if changed && own_connected && !st.0 {
                rep.count("observation.disconnected_entry_replaced_on_reconnection");
                continue;
            }
            if changed {
                rep.violation(
                    &format!("C17|clause=other-connection-disturbed|own_connected={}", own_connected),
                    &format!("a message on peer {} of node {} changed the state of peer {} from {:?} to {:?} (trace {:?})", idx, node, p, st.0, after.get(p).map(|x| x.0), self.trace.iter().rev().take(10).collect::<Vec<_>>()),
                    witness.clone(),
                );
                return false;
            }
        }
        if !own_connected {
            for (k, v) in addr_before.iter() {
                if *v != idx && addr_after.get(k) != Some(v) {
                    rep.violation(
                        "C17|clause=address-map-disturbed-by-failed-message",
                        &format!("a message on peer {} of node {} that did not authenticate changed the address map entry of peer {} (trace {:?})", idx, node, v, self.trace.iter().rev().take(10).collect::<Vec<_>>()),
                        witness.clone(),
                    );
                    return false;
                }
            }
        } else {
            for (k, v) in addr_before.iter() {
                if *v != idx && addr_after.get(k) != Some(v) {
                    rep.count("observation.address_map_entry_of_other_peer_replaced_on_success");
                }
            }
        }
        true
    }

    /// everything the attacker can do next
    fn actions(&self, rng: &mut Rng, breadth: usize) -> Vec<Action> {
        let mut v = vec![];
        for (ci, c) in self.conns.iter().enumerate() {
            // connections dialled by B (0: to A, 3: to the attacker) can be broken and redialled
            if ci == 0 || ci == 3 {
                v.push(if c.broken { Action::Redial(ci) } else { Action::Break(ci) });
            }
            if c.right.is_some() && !c.broken {
                if !c.to_left.is_empty() {
                    v.push(Action::Deliver(ci, 0));
                    v.push(Action::Drop(ci, 0));
                }
                if !c.to_right.is_empty() {
                    v.push(Action::Deliver(ci, 1));
                    v.push(Action::Drop(ci, 1));
                }
            }
        }
        // injections at every honest endpoint
        let endpoints: Vec<(usize, u64)> = self.conns.iter().flat_map(|c| std::iter::once(c.left).chain(c.right.into_iter())).collect();
        let mut inj: Vec<Action> = vec![];
        for (node, idx) in endpoints {
            // replay / redirect of observed messages
            for (label, bytes) in self.seen_msgs.iter().rev().take(6) {
                inj.push(Action::Inject(node, idx, bytes.clone(), format!("replay[{}]", label)));
            }
            // challenges: reflect a known challenge or a fresh one
            for ch in self.seen_challenges.iter().rev().take(4) {
                inj.push(Action::Inject(node, idx, Message::HandshakeChallenge(HandshakeChallenge { challenge: *ch }).serialize(), format!("challenge[known:{}]", hex::encode(&ch[..2]))));
            }
            inj.push(Action::Inject(node, idx, Message::HandshakeChallenge(HandshakeChallenge { challenge: [7; 32] }).serialize(), "challenge[fresh]".into()));
            // (an honest node signs whatever it is challenged with: 32 zero bytes are what a
            // missing challenge looks like to careless code)
            inj.push(Action::Inject(node, idx, Message::HandshakeChallenge(HandshakeChallenge { challenge: [0; 32] }).serialize(), "challenge[zero]".into()));
            // responses signed by an attacker key over a known challenge, with variations
            for (ki, key) in self.attacker_keys.iter().enumerate() {
                for ch in self.seen_challenges.iter().rev().take(3) {
                    let mk = |sig: [u8; 64], core: Version, counter: [u8; 32]| HandshakeResponse {
                        public_key: key.pk,
                        signature: sig,
                        is_lite: false,
                        block_fetch_url: "http://m.example:1".to_string(),
                        challenge: counter,
                        services: vec![],
                        wallet_version: Version::new(0, 0, 1),
                        core_version: core,
                    };
                    let good = sign(ch, &key.sk);
                    let tag = format!("{}:{}", ki, hex::encode(&ch[..2]));
                    inj.push(Action::Inject(node, idx, Message::HandshakeResponse(mk(good, Version::new(0, 2, 11), [9; 32])).serialize(), format!("response[own-key{}]", tag)));
                    let mut bad = good;
                    bad[5] ^= 1;
                    inj.push(Action::Inject(node, idx, Message::HandshakeResponse(mk(bad, Version::new(0, 2, 11), [9; 32])).serialize(), format!("response[bad-sig{}]", tag)));
                    inj.push(Action::Inject(node, idx, Message::HandshakeResponse(mk(good, Version::new(0, 0, 0), [9; 32])).serialize(), format!("response[version-unset{}]", tag)));
                    inj.push(Action::Inject(node, idx, Message::HandshakeResponse(mk(good, Version::new(9, 9, 9), [9; 32])).serialize(), format!("response[version-incompatible{}]", tag)));
                    // claims an honest key with the attacker's signature
                    let mut forged = mk(good, Version::new(0, 2, 11), [9; 32]);
                    forged.public_key = self.honest_keys[ki % 2];
                    inj.push(Action::Inject(node, idx, Message::HandshakeResponse(forged).serialize(), format!("response[claims-honest-key{}]", tag)));
                }
            }
        }
        rng.shuffle(&mut inj);
        inj.truncate(breadth);
        v.extend(inj);
        v
    }

    async fn apply(&mut self, a: &Action, rep: &mut Report) -> bool {
        match a {
            Action::Deliver(ci, side) => {
                let (bytes, ep) = {
                    let c = &mut self.conns[*ci];
                    if *side == 0 {
                        (c.to_left.pop_front(), c.left)
                    } else {
                        (c.to_right.pop_front(), c.right.unwrap())
                    }
                };
                match bytes {
                    Some(b) => {
                        let tag = b[0];
                        self.deliver(ep.0, ep.1, b, false, &format!("deliver[tag{}]", tag), rep).await
                    }
                    None => true,
                }
            }
            Action::Drop(ci, side) => {
                let c = &mut self.conns[*ci];
                if *side == 0 {
                    c.to_left.pop_front();
                } else {
                    c.to_right.pop_front();
                }
                self.trace.push(format!("drop[c{}s{}]", ci, side));
                true
            }
            Action::Inject(node, idx, bytes, label) => self.deliver(*node, *idx, bytes.clone(), true, label, rep).await,
            Action::Break(ci) => {
                use saito_core::core::io::network::PeerDisconnectType;
                let ends: Vec<(usize, u64)> = std::iter::once(self.conns[*ci].left).chain(self.conns[*ci].right.into_iter()).collect();
                self.trace.push(format!("break[c{}]", ci));
                rep.count("connections_broken");
                for (node, idx) in ends {
                    if self.nodes[node].net(NetworkEvent::PeerDisconnected { peer_index: idx, disconnect_type: PeerDisconnectType::ExternalDisconnect }).await.is_err() {
                        rep.violation("C17|clause=handler-panics|disconnect", "the disconnect handler panicked", json!({"kind":"handshake","trace": self.trace}));
                        return false;
                    }
                    self.collect(node);
                    // challenges issued on a connection die with it
                    self.issued.remove(&(node, idx));
                }
                let c = &mut self.conns[*ci];
                c.to_left.clear();
                c.to_right.clear();
                c.broken = true;
                true
            }
            Action::Redial(ci) => {
                self.trace.push(format!("redial[c{}]", ci));
                rep.count("connections_redialled");
                // the dialling side (B) keeps the index of its static peer; the listening side sees a new one
                let (dial, listen) = if *ci == 0 { (self.conns[0].right.unwrap(), Some(self.conns[0].left)) } else { (self.conns[3].left, None) };
                if let Some((ln, _)) = listen {
                    self.next_incoming += 1;
                    let ni = self.next_incoming;
                    self.conns[*ci].left = (ln, ni);
                    if self.nodes[ln].net(NetworkEvent::PeerConnectionResult { result: Ok((ni, Some("10.0.0.1".to_string()))) }).await.is_err() {
                        return false;
                    }
                    self.collect(ln);
                }
                if self.nodes[dial.0].net(NetworkEvent::PeerConnectionResult { result: Ok((dial.1, Some("10.0.0.1".to_string()))) }).await.is_err() {
                    return false;
                }
                self.conns[*ci].broken = false;
                self.collect(dial.0);
                true
            }
        }
    }
}

/// the attacker runs a complete, honest-looking handshake with one of its own keys on the connection
/// (node, idx): challenge, the node's response with its counter-challenge, the attacker's response
async fn attacker_handshake(sim: &mut Sim, node: usize, idx: u64, key_i: usize, rep: &mut Report) -> bool {
    let ch = Message::HandshakeChallenge(HandshakeChallenge { challenge: [7 + key_i as u8; 32] }).serialize();
    if !sim.deliver(node, idx, ch, true, "challenge[fresh]", rep).await {
        return false;
    }
    let counter = match sim.issued.get(&(node, idx)).and_then(|l| l.iter().rev().find(|i| !i.consumed)).map(|i| i.challenge) {
        Some(c) => c,
        None => return true,
    };
    let key = sim.attacker_keys[key_i].clone();
    let resp = HandshakeResponse {
        public_key: key.pk,
        signature: sign(&counter, &key.sk),
        is_lite: false,
        block_fetch_url: "http://m.example:1".to_string(),
        challenge: [9; 32],
        services: vec![],
        wallet_version: Version::new(0, 0, 1),
        core_version: Version::new(0, 2, 11),
    };
    sim.deliver(node, idx, Message::HandshakeResponse(resp).serialize(), true, &format!("response[own-key{}]", key_i), rep).await
}

/// directed schedules the random exploration reaches only rarely
async fn directed(rep: &mut Report) {
    // 1. the response an honest node gives to an all-zero challenge, replayed as the first message
    //    on a connection whose node has not issued any challenge yet
    if let Some(mut sim) = Sim::new(rep).await {
        rep.eval();
        rep.count("runs.directed");
        let zero = Message::HandshakeChallenge(HandshakeChallenge { challenge: [0; 32] }).serialize();
        if sim.deliver(A, 11, zero, true, "challenge[zero]", rep).await {
            let reply = sim.seen_msgs.iter().rev().find(|(l, b)| l.starts_with("from-n0p11") && matches!(Message::deserialize(b.clone()), Ok(Message::HandshakeResponse(_)))).map(|(_, b)| b.clone());
            if let Some(bytes) = reply {
                rep.count("directed.zero-challenge-responses-replayed");
                for (node, idx) in [(B, 2u64), (B, 12), (B, 1)] {
                    if !sim.deliver(node, idx, bytes.clone(), true, "replay[response-to-zero-challenge]", rep).await {
                        break;
                    }
                }
            }
        }
        rep.nontrivial(&format!("directed-zero|{:?}", sim.trace));
    }
    // 2. a static peer answers under one key, the connection breaks, the redialled address answers
    //    under another key
    if let Some(mut sim) = Sim::new(rep).await {
        rep.eval();
        rep.count("runs.directed");
        if attacker_handshake(&mut sim, B, 2, 0, rep).await {
            let first = sim.snapshot(B).await.0.get(&2).cloned();
            if matches!(first, Some((true, _))) {
                rep.count("directed.static-peer-authenticated-under-first-key");
            }
            if sim.apply(&Action::Break(3), rep).await && sim.apply(&Action::Redial(3), rep).await {
                let _ = attacker_handshake(&mut sim, B, 2, 1, rep).await;
                rep.count("directed.static-peer-redialled-and-answered-under-second-key");
            }
        }
        rep.nontrivial(&format!("directed-rekey|{:?}", sim.trace));
    }
}

async fn random_run(rng: &mut Rng, depth: usize, rep: &mut Report) {
    let mut sim = match Sim::new(rep).await {
        Some(s) => s,
        None => return,
    };
    rep.eval();
    rep.count("runs.random");
    for _ in 0..depth {
        let acts = sim.actions(rng, 40);
        if acts.is_empty() {
            break;
        }
        // honest deliveries are favoured so that real handshakes complete amid the noise
        let honest: Vec<&Action> = acts.iter().filter(|a| matches!(a, Action::Deliver(..))).collect();
        let a = if !honest.is_empty() && rng.chance(1, 2) { (*rng.pick(&honest)).clone() } else { rng.pick(&acts).clone() };
        if !sim.apply(&a, rep).await {
            return;
        }
    }
    rep.nontrivial(&format!("random|{:?}", sim.trace));
    if rep.samples.len() < 3 {
        rep.sample(json!({"trace": sim.trace.iter().take(30).collect::<Vec<_>>()}));
    }
}

/// bounded exhaustive exploration by re-execution: every sequence of `depth` actions taken from
/// the first `breadth` enabled actions of each state
async fn dfs(prefix: Vec<usize>, depth: usize, breadth: usize, rep: &mut Report, rng_seed: u64, budget: &mut u64) {
    if *budget == 0 {
        return;
    }
    // re-execute the prefix
    let mut sim = match Sim::new(rep).await {
        Some(s) => s,
        None => return,
    };
    let mut rng = Rng::new(rng_seed);
    for choice in &prefix {
        let acts = sim.actions(&mut rng, breadth);
        if *choice >= acts.len() {
            return;
        }
        if !sim.apply(&acts[*choice], rep).await {
            return;
        }
    }
    *budget -= 1;
    rep.eval();
    rep.count("runs.dfs");
    rep.nontrivial(&format!("dfs|{:?}", prefix));
    if prefix.len() >= depth {
        return;
    }
    let n = sim.actions(&mut rng, breadth).len();
    for c in 0..n {
        let mut next = prefix.clone();
        next.push(c);
        Box::pin(dfs(next, depth, breadth, rep, rng_seed, budget)).await;
    }
}

pub async fn run(ctx: &Ctx, rep: &mut Report) {
    let mut rng = ctx.rng();
    // the honest handshake alone must complete and be justified
    {
        let mut sim = match Sim::new(rep).await {
            Some(s) => s,
            None => return,
        };
        for _ in 0..12 {
            let acts = sim.actions(&mut rng, 0);
            let honest: Vec<Action> = acts.into_iter().filter(|a| matches!(a, Action::Deliver(..))).collect();
            if honest.is_empty() {
                break;
            }
            if !sim.apply(&honest[0], rep).await {
                return;
            }
        }
        let (sa, _) = sim.snapshot(A).await;
        let (sb, _) = sim.snapshot(B).await;
        let ok = sa.get(&10).map(|x| x.0 && x.1 == Some(sim.honest_keys[1])).unwrap_or(false) && sb.get(&1).map(|x| x.0 && x.1 == Some(sim.honest_keys[0])).unwrap_or(false);
        rep.eval();
        if ok {
            rep.count("honest_handshakes_completed");
        } else {
            rep.violation("C17|clause=honest-handshake-does-not-complete", &format!("undisturbed handshake between two honest nodes did not end with both sides connected ({:?})", sim.trace), json!({"trace": sim.trace}));
        }
    }
    directed(rep).await;
    let runs = ctx.scale(1_600, 16_000) / ctx.shards.max(1) + 1;
    for _ in 0..runs {
        random_run(&mut rng, ctx.scale(40, 60) as usize, rep).await;
    }
    // bounded exhaustive part, split over shards by the first choice
    let depth = ctx.scale(3, 4) as usize;
    let breadth = 10;
    let mut budget = ctx.scale(3_000, 60_000) / ctx.shards.max(1);
    let first_n = 14;
    for c in 0..first_n {
        if !ctx.mine(c as u64) {
            continue;
        }
        dfs(vec![c], depth, breadth, rep, ctx.seed ^ 0x17, &mut budget).await;
    }
}
