//! C08 — routing work gates block production; payouts go only to eligible parties.
use std::collections::HashSet;

use saito_core::core::consensus::burnfee::BurnFee;
use saito_core::core::consensus::golden_ticket::GoldenTicket;
use saito_core::core::consensus::transaction::{Transaction, TransactionType};
use saito_core::core::util::crypto::verify;
use serde_json::json;

use crate::chain::{BlockSpec, Builder};
use crate::corpus::default_issuance;
use crate::history::{History, HistoryCfg};
use crate::props::c02::regimes;
use crate::props::Ctx;
use crate::report::Report;
use crate::rng::Rng;
use crate::world::*;

/// reference routing work of `tx` for `creator` (independent of Transaction::generate_total_work)
pub fn ref_work(tx: &Transaction, creator: &PK) -> u128 {
    if tx.path.is_empty() {
        return 0;
    }
    // fee in exact arithmetic from the slips
    let tin: u128 = tx.from.iter().filter(|s| s.slip_type as u8 != 9).map(|s| s.amount as u128).sum();
    let tout: u128 = tx.to.iter().filter(|s| s.slip_type as u8 != 9).map(|s| s.amount as u128).sum();
    let fee = tin.saturating_sub(tout);
    // path must be cryptographically valid, contiguous, free of self hops and end at the creator
    for (i, hop) in tx.path.iter().enumerate() {
        let msg: Vec<u8> = [tx.signature.as_slice(), hop.to.as_slice()].concat();
        if !verify(&msg, &hop.sig, &hop.from) || hop.from == hop.to {
            return 0;
        }
        if i > 0 && hop.from != tx.path[i - 1].to {
            return 0;
        }
    }
    if &tx.path[tx.path.len() - 1].to != creator {
        return 0;
    }
    let mut work = fee;
    for _ in 1..tx.path.len() {
        work -= work / 2;
    }
    work
}

/// the requirement, in exact arithmetic: burnfee / elapsed rounded to nearest, 0 after 2 heartbeats
pub fn ref_needed(burnfee: u64, now: u64, prev: u64, hb: u64) -> Option<u128> {
    if prev >= now {
        return None; // "impossible": the code answers with a prohibitive constant
    }
    let dt = (now - prev) as u128;
    if dt >= 2 * hb as u128 {
        return Some(0);
    }
    Some((2 * burnfee as u128 + dt) / (2 * dt))
}

fn curve_checks(rng: &mut Rng, rep: &mut Report, n: u64) {
    let extremes: [u64; 10] = [0, 1, 2, 1000, 50_000_000, 1 << 32, 1 << 52, 1 << 53, 1 << 62, u64::MAX];
    for i in 0..n {
        let burnfee = if i % 3 == 0 { extremes[rng.below(10) as usize] } else { rng.below(1 << 40) };
        let hb = match rng.below(4) {
            0 => 1,
            1 => 100,
            2 => 5_000,
            _ => 1 + rng.below(100_000),
        };
        let prev = if rng.chance(1, 10) { extremes[rng.below(10) as usize] / 4 } else { T0 + rng.below(1 << 30) };
        let d1 = rng.below(3 * hb + 2);
        let d2 = d1 + rng.below(2 * hb + 2);
        let r = crate::panics::catch(|| {
            let w1 = BurnFee::return_routing_work_needed_to_produce_block_in_nolan(burnfee, prev.saturating_add(d1), prev, hb);
            let w2 = BurnFee::return_routing_work_needed_to_produce_block_in_nolan(burnfee, prev.saturating_add(d2), prev, hb);
            let bf = BurnFee::calculate_burnfee_for_block(burnfee, prev.saturating_add(d1), prev, hb);
            (w1, w2, bf)
        });
        rep.eval();
        rep.count("curve_points");
        rep.nontrivial(&format!("curve|{}|{}|{}|{}", burnfee, hb, d1, d2));
        let witness = json!({"kind":"curve","burnfee":burnfee,"prev":prev,"d1":d1,"d2":d2,"heartbeat":hb});
        match r {
            Err(p) => rep.violation(&format!("C08|clause=curve-panic|{}", p.signature()), &p.message, witness),
            Ok((w1, w2, _bf)) => {
                // never increases with elapsed time (d1 == 0 is the "impossible" case with its prohibitive constant)
                if d1 > 0 && w2 > w1 {
                    rep.violation("C08|clause=requirement-increases-with-time", &format!("work needed rises from {} at +{}ms to {} at +{}ms (burnfee {}, heartbeat {})", w1, d1, w2, d2, burnfee, hb), witness.clone());
                }
                if d2 >= 2 * hb && d2 > 0 && w2 != 0 {
                    rep.violation("C08|clause=requirement-nonzero-after-two-heartbeats", &format!("work needed {} at +{}ms with heartbeat {}", w2, d2, hb), witness.clone());
                }
                // agreement with exact arithmetic within 1 nolan per 2^52 (f64 resolution)
                if let Some(exact) = ref_needed(burnfee, prev.saturating_add(d1), prev, hb) {
                    let tol = 1 + (exact >> 50);
                    let diff = if (w1 as u128) > exact { w1 as u128 - exact } else { exact - w1 as u128 };
                    if diff > tol && exact < u64::MAX as u128 {
                        rep.violation("C08|clause=requirement-differs-from-exact", &format!("code {} exact {} (burnfee {}, +{}ms)", w1, exact, burnfee, d1), witness.clone());
                    }
                }
            }
        }
    }
}

/// a payment from `from` whose fee is exactly `fee`, routed along `path_idx` (actor indices)
fn routed(b: &mut Builder, rng: &mut Rng, at: &Hash, from: usize, fee: u64, path_idx: &[usize], exclude: &mut Vec<[u8; 59]>) -> Option<Transaction> {
    let mut tx = b.payment(rng, at, from, (from + 1) % b.actors.len(), 1_000, fee, exclude)?;
    let sender = b.actors[from].clone();
    let actors: Vec<Actor> = path_idx.iter().map(|i| b.actors[*i].clone()).collect();
    let refs: Vec<&Actor> = actors.iter().collect();
    add_path(&mut tx, &sender, &refs);
    Some(tx)
}

async fn threshold_cases(rng: &mut Rng, rep: &mut Report, rounds: u64) {
    let n = 5;
    for round in 0..rounds {
        let params = Params::with_gp(50);
        let hb = params.heartbeat;
        let mut b = Builder::new(&params, n, &default_issuance(n)).await;
        let g = b.genesis;
        // a few blocks at relaxed spacing, then the block under test at a tight spacing
        let pre = 1 + (round % 4) as usize;
        let parent = b.grow(rng, &g, pre, 2, 500).await;
        let pblk = b.store.get(&parent).block.clone();
        let gap = match round % 5 {
            0 => 1,
            1 => hb / 2,
            2 => hb,
            3 => 2 * hb - 1,
            _ => 1 + rng.below(2 * hb - 1),
        };
        let needed = BurnFee::return_routing_work_needed_to_produce_block_in_nolan(pblk.burnfee, pblk.timestamp + gap, pblk.timestamp, hb);
        if needed == 0 || needed > 400_000_000 {
            rep.count("threshold_skipped_unreachable");
            continue;
        }
        // path shapes: (hops as actor indices ending at the creator 0, expected work for fee f)
        let shapes: Vec<(&str, Vec<usize>, u32)> = vec![("1-hop", vec![0], 0), ("2-hop", vec![2, 0], 1), ("3-hop", vec![2, 3, 0], 2)];
        let (shape, path, halvings) = shapes[(round as usize / 5) % shapes.len()].clone();
        // smallest fee whose work after `halvings` halvings reaches `needed`
        let work_of = |f: u64| {
            let mut w = f as u128;
            for _ in 0..halvings {
                w -= w / 2;
            }
            w
        };
        let mut fee = needed;
        while work_of(fee) < needed as u128 {
            fee += 1;
        }
        while fee > 0 && work_of(fee - 1) >= needed as u128 {
            fee -= 1;
        }
        for (label, f, expect_accept) in [("exact", fee, true), ("one-short", fee - 1, false)] {
            let mut exclude = vec![];
            let tx = match routed(&mut b, rng, &parent, 1, f, &path, &mut exclude) {
                Some(t) => t,
                None => continue,
            };
            let w = ref_work(&tx, &b.actors[0].pk);
            let id = pblk.id + 1;
            let with_gt = id % 2 == 0;
            let spec = BlockSpec { gap, txs: vec![tx], with_gt, gt_miner: 3 };
            let (block, pnode) = match b.produce(rng, &parent, &spec).await {
                Ok(x) => x,
                Err(_) => continue,
            };
            b.keep_producer(parent, pnode);
            let mut sut = b.fresh_replica(&parent, &b.actors[4].clone()).await;
            let before = sut.tip().await;
            let bytes = block_bytes(&block);
            let r = sut.add_bytes(&bytes).await;
            let accepted = sut.tip().await != before;
            rep.eval();
            rep.count("threshold_blocks");
            rep.count(&format!("threshold.{}.{}", shape, label));
            rep.nontrivial(&format!("thr|{}|{}|{}|{}|{}", shape, label, gap, needed, pre));
            let witness = json!({"kind":"work-threshold","shape":shape,"label":label,"gap":gap,"needed":needed,"fee":f,"ref_work":w.to_string(),
                "parent_chain_hex": b.store.ancestors(&parent).iter().map(|x| hex::encode(&b.store.get(x).bytes)).collect::<Vec<_>>(),"block_hex":hex::encode(&bytes)});
            if accepted != expect_accept {
                rep.violation(
                    &format!("C08|clause=work-threshold|shape={}|case={}", shape, label),
                    &format!("block with routing work {} against a requirement of {} (gap {}ms, parent burnfee {}) was {} ({:?})", w, needed, gap, pblk.burnfee, if accepted { "accepted" } else { "refused" }, r.map(|x| x.short())),
                    witness,
                );
            }
        }
        // paths that must contribute nothing: broken, not ending at the creator, forged hop
        // signature, self hop. The fee would be sufficient if the path counted.
        for (label, kind) in [("not-to-creator", 0u8), ("broken-path", 1), ("forged-hop-signature", 2), ("no-path", 3)] {
            let mut exclude = vec![];
            let mut tx = match routed(&mut b, rng, &parent, 1, fee.max(2) * 4, &[2, 0], &mut exclude) {
                Some(t) => t,
                None => continue,
            };
            match kind {
                0 => {
                    tx.path.pop(); // ends at router 2
                }
                1 => {
                    // second hop claims to come from somebody else
                    let other = b.actors[3].clone();
                    let bytes: Vec<u8> = [tx.signature.as_slice(), b.actors[0].pk.as_slice()].concat();
                    tx.path[1].from = other.pk;
                    tx.path[1].sig = saito_core::core::util::crypto::sign(&bytes, &other.sk);
                }
                2 => tx.path[0].sig[9] ^= 4,
                _ => tx.path.clear(),
            }
            let w = ref_work(&tx, &b.actors[0].pk);
            let spec = BlockSpec { gap, txs: vec![tx], with_gt: (pblk.id + 1) % 2 == 0, gt_miner: 3 };
            let (block, pnode) = match b.produce(rng, &parent, &spec).await {
                Ok(x) => x,
                Err(_) => continue,
            };
            b.keep_producer(parent, pnode);
            let mut sut = b.fresh_replica(&parent, &b.actors[4].clone()).await;
            let before = sut.tip().await;
            let bytes = block_bytes(&block);
            let _ = sut.add_bytes(&bytes).await;
            let accepted = sut.tip().await != before;
            rep.eval();
            rep.count("threshold_blocks");
            rep.count(&format!("zero-work.{}", label));
            rep.nontrivial(&format!("zero|{}|{}|{}", label, gap, pre));
            if accepted || w != 0 {
                rep.violation(
                    &format!("C08|clause=ineligible-path-counted|case={}", label),
                    &format!("a block whose only fee-paying transaction has a {} path (reference work {}) was {} against a requirement of {}", label, w, if accepted { "accepted" } else { "refused" }, needed),
                    json!({"kind":"work-threshold","label":label,"parent_chain_hex": b.store.ancestors(&parent).iter().map(|x| hex::encode(&b.store.get(x).bytes)).collect::<Vec<_>>(),"block_hex":hex::encode(&bytes)}),
                );
            }
        }
    }
}

/// eligible payout recipients of the block at `paid`: every hop.to of its transactions and
/// the sender of its path-less fee-paying transactions (ATR: taken from the embedded original)
fn eligible_from(block: &saito_core::core::consensus::block::Block, set: &mut HashSet<PK>) {
    for tx in &block.transactions {
        let t: Option<Transaction> = if tx.transaction_type == TransactionType::ATR { Transaction::deserialize_from_net(&tx.data).ok() } else { Some(tx.clone()) };
        if let Some(t) = t {
            for hop in &t.path {
                set.insert(hop.to);
            }
            if t.path.is_empty() && !t.from.is_empty() {
                set.insert(t.from[0].public_key);
            }
        }
    }
}

async fn payout_histories(ctx: &Ctx, rng: &mut Rng, rep: &mut Report) {
    let mut all = regimes(&mut Rng::new(ctx.seed ^ 8), ctx.thorough);
    all.retain(|r| r.name != "fee-burn-long" && r.name != "staking");
    let mut work = 0u64;
    for _ in 0..ctx.scale(4, 20) {
        for reg in all.iter() {
            work += 1;
            if !ctx.mine(work) {
                continue;
            }
            let mut cfg: HistoryCfg = reg.cfg.clone();
            cfg.hops_max = 3;
            let mut h = History::new(cfg).await;
            for _ in 0..reg.blocks.min(40) {
                let step = match h.step(rng).await {
                    Ok(s) => s,
                    Err(_) => break,
                };
                if !matches!(step.replica_result, Some(Added::Ok(_))) {
                    break;
                }
                let blk = h.b.store.get(&step.hash).block.clone();
                let fee_tx = blk.transactions.iter().find(|t| t.transaction_type == TransactionType::Fee);
                let gt_tx = blk.transactions.iter().find(|t| t.transaction_type == TransactionType::GoldenTicket);
                let (fee_tx, gt_tx) = match (fee_tx, gt_tx) {
                    (Some(f), Some(g)) => (f, g),
                    _ => continue,
                };
                rep.eval();
                rep.count("payout_blocks");
                let gt = GoldenTicket::deserialize_from_net(&gt_tx.data);
                let miner: PK = gt.serialize_for_net()[64..97].try_into().unwrap();
                let prev = h.b.store.get(&blk.previous_block_hash).block.clone();
                let mut eligible: HashSet<PK> = HashSet::new();
                eligible.insert(miner);
                eligible_from(&prev, &mut eligible);
                let mut collected: u128 = prev.total_fees as u128;
                if !prev.has_golden_ticket && prev.previous_block_hash != [0; 32] {
                    let pp = h.b.store.get(&prev.previous_block_hash).block.clone();
                    eligible_from(&pp, &mut eligible);
                    collected += pp.total_fees as u128;
                }
                let paid: u128 = fee_tx.to.iter().map(|s| s.amount as u128).sum();
                rep.nontrivial(&format!("payout|{}|{}|{}|{}", reg.name, blk.id, fee_tx.to.len(), paid));
                if paid > 0 {
                    rep.count("payout_blocks_nonzero");
                }
                let witness = json!({"kind":"payout","block_hex": hex::encode(block_bytes(&blk)), "prev_hex": hex::encode(block_bytes(&prev))});
                for s in &fee_tx.to {
                    if s.amount > 0 && !eligible.contains(&s.public_key) {
                        rep.violation(
                            "C08|clause=payout-to-ineligible-key",
                            &format!("[{}] block {} pays {} to {} which is neither the ticket solver nor on a routing path of the paid blocks", reg.name, blk.id, s.amount, actor_name(&h.b.actors, &s.public_key)),
                            witness.clone(),
                        );
                    }
                    if s.public_key != miner {
                        rep.count("router_payouts");
                    } else {
                        rep.count("miner_payouts");
                    }
                }
                let total_out = paid + blk.total_payout_treasury as u128 + blk.total_payout_graveyard as u128;
                if total_out > collected {
                    rep.violation(
                        "C08|clause=payout-exceeds-fees-collected",
                        &format!("[{}] block {} pays out {} (+treasury {} +graveyard {}) but the paid blocks collected {}", reg.name, blk.id, paid, blk.total_payout_treasury, blk.total_payout_graveyard, collected),
                        witness,
                    );
                }
            }
        }
    }
}

/// a golden ticket only counts when it solves the PARENT block: on a chain whose difficulty has
/// been raised by consecutive ticket blocks (at difficulty 0 every hash "solves" every target) a
/// block carrying a ticket with valid work over a foreign or a stale target must be refused,
/// the same block with a ticket over the parent hash accepted
async fn ticket_probes(rng: &mut Rng, rep: &mut Report, rounds: u64) {
    for round in 0..rounds {
        let params = Params::with_gp(60);
        let mut b = Builder::new(&params, 5, &default_issuance(5)).await;
        let mut tip = b.genesis;
        let mut ok = true;
        for i in 0..(7 + round % 3) {
            let mut ex = vec![];
            let txs = b.payment(rng, &tip, 1 + (i as usize % 4), 0, 700, 5_000, &mut ex).into_iter().collect();
            let spec = BlockSpec { gap: 2 * params.heartbeat, txs, with_gt: true, gt_miner: 1 + (i as usize % 4) };
            match b.extend(rng, &tip, &spec).await {
                Ok(h) => tip = h,
                Err(_) => {
                    ok = false;
                    break;
                }
            }
        }
        let parent = b.store.get(&tip).block.clone();
        if !ok || parent.difficulty < 4 {
            rep.count("ticket_probe_chains_skipped");
            continue;
        }
        rep.max("ticket_probe_difficulty", parent.difficulty);
        let grandparent = parent.previous_block_hash;
        let solver = b.actors[3].clone();
        for (variant, target, must_accept) in [("parent-hash", tip, true), ("foreign-target", rng.hash32(), false), ("stale-target-grandparent", grandparent, false)] {
            let ticket = mine_gt(rng, target, parent.difficulty, &solver.pk);
            // (with probability 2^-difficulty the nonce found for another target also solves the parent)
            let wire = ticket.serialize_for_net();
            let (nonce, solver_key): ([u8; 32], PK) = (wire[32..64].try_into().unwrap(), wire[64..97].try_into().unwrap());
            if !must_accept && GoldenTicket::create(tip, nonce, solver_key).validate(parent.difficulty) {
                rep.count("ticket_probe_nonce_solves_parent_by_chance");
                continue;
            }
            let mut ex = vec![];
            let txs: Vec<Transaction> = b.payment(rng, &tip, 2, 4, 300, 4_000, &mut ex).into_iter().collect();
            let producer = b.producer_at(&tip).await;
            let built = crate::panics::catch_async(producer.create_block(tip, parent.timestamp + 2 * params.heartbeat, txs, Some(gt_tx(&ticket, &solver)))).await;
            b.keep_producer(tip, producer);
            let block = match built {
                Ok(Ok(bl)) => bl,
                _ => {
                    rep.count("ticket_probe_block_not_built");
                    continue;
                }
            };
            let bytes = block_bytes(&block);
            let key = b.actors[4].clone();
            let mut sut = b.fresh_replica(&tip, &key).await;
            let before = sut.tip().await;
            let r = crate::panics::catch_async(sut.add_bytes(&bytes)).await;
            rep.eval();
            rep.count("ticket_probes");
            rep.count(&format!("ticket_probes.{}", variant));
            rep.nontrivial(&format!("ticket|{}|{}|{}", variant, parent.difficulty, round));
            let moved = sut.tip().await != before;
            let witness = json!({"kind":"ticket-target","variant":variant,"difficulty":parent.difficulty,"block_hex":hex::encode(&bytes),"parent_hex":hex::encode(block_bytes(&parent))});
            match (r, must_accept, moved) {
                (Err(p), _, _) => rep.violation(&format!("C08|clause=ticket-target|variant={}|panic|{}", variant, p.signature()), &format!("add_block panicked: {}", p.message), witness),
                (Ok(_), true, false) => rep.count("ticket_probe_control_refused"),
                (Ok(_), false, true) => rep.violation(
                    &format!("C08|clause=ticket-over-wrong-target-accepted|variant={}", variant),
                    &format!("parent difficulty {}: a block whose golden ticket carries valid work over a {} (not the parent's hash) was accepted; the miner share goes to a key that did not solve the parent", parent.difficulty, variant),
                    witness,
                ),
                _ => rep.count("ticket_probe_as_expected"),
            }
        }
    }
}

pub async fn run(ctx: &Ctx, rep: &mut Report) {
    let mut rng = ctx.rng();
    curve_checks(&mut rng, rep, ctx.scale(40_000, 2_000_000) / ctx.shards.max(1));
    threshold_cases(&mut rng, rep, ctx.scale(240, 3000) / ctx.shards.max(1) + 1).await;
    payout_histories(ctx, &mut rng, rep).await;
    ticket_probes(&mut rng, rep, ctx.scale(16, 200) / ctx.shards.max(1) + 1).await;
    rep.sample(json!({"threshold":"parent burnfee B, block at +gap ms (< 2 heartbeats): requirement N = round(B/gap); one fee-paying transaction routed sender -> [routers] -> creator with the smallest fee whose halved work reaches N (must be accepted) and that fee - 1 (must be refused)"}));
}
