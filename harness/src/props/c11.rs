//! C11 — no sequence of peer inputs crashes or stalls the node; rejected input leaves the state
//! honest peers rely on untouched. A full node (the four worker structs over the in-memory I/O)
//! receives hostile but decodable traffic from an authenticated attacker connection, an
//! unauthenticated one and an unknown index, interleaved with honest traffic and with every
//! queue of inter-thread events run in a chosen order. Every handler call is wrapped.
use std::collections::{BTreeMap, BTreeSet, VecDeque};
use std::time::Instant;

use saito_core::core::consensus::block::Block;
use saito_core::core::consensus::peers::peer::PeerStatus;
use saito_core::core::consensus::transaction::{Transaction, TransactionType};
use saito_core::core::io::network_event::NetworkEvent;
use saito_core::core::msg::api_message::ApiMessage;
use saito_core::core::msg::ghost_chain_sync::GhostChainSync;
use saito_core::core::msg::handshake::HandshakeChallenge;
use saito_core::core::msg::message::Message;
use saito_core::core::process::version::Version;
use saito_core::core::util::configuration::PeerConfig;
use saito_core::core::util::crypto::hash;
use serde_json::{json, Value};

use crate::alloc;
use crate::chain::Builder;
use crate::corpus::{blockchain_request, default_issuance, handshake_response, services};
use crate::io::{MemIo, OutMsg};
use crate::monitors::{diff, snapshot, Snapshot};
use crate::node::{Node, Queue};
use crate::panics::PanicInfo;
use crate::props::c01;
use crate::props::c04::{corrupt, KINDS};
use crate::props::Ctx;
use crate::report::Report;
use crate::rng::Rng;
use crate::world::*;

const HONEST: u64 = 1;
const ATT_AUTH: u64 = 2;
const ATT_RAW: u64 = 3;
const UNKNOWN: u64 = 4;
const ALLOC_BOUND: usize = 256 << 20;

#[derive(Clone, Debug)]
enum Input {
    Msg { peer: u64, bytes: Vec<u8> },
    Fetched { peer: u64, hash: Hash, id: u64, bytes: Vec<u8> },
    FetchFailed { peer: u64, hash: Hash, id: u64 },
    Connect { peer: u64 },
    ConnectErr,
    Disconnect { peer: u64, external: bool },
    StunAdd { peer: u64, key: PK },
    StunRemove { peer: u64 },
    Tick(u64),
    Step(u8),
}

impl Input {
    fn to_json(&self) -> Value {
        match self {
            Input::Msg { peer, bytes } => json!({"t":"msg","peer":peer,"hex":hex::encode(bytes)}),
            Input::Fetched { peer, hash, id, bytes } => json!({"t":"fetched","peer":peer,"hash":hex::encode(hash),"id":id,"hex":hex::encode(bytes)}),
            Input::FetchFailed { peer, hash, id } => json!({"t":"failed","peer":peer,"hash":hex::encode(hash),"id":id}),
            Input::Connect { peer } => json!({"t":"connect","peer":peer}),
            Input::ConnectErr => json!({"t":"connect-err"}),
            Input::Disconnect { peer, external } => json!({"t":"disconnect","peer":peer,"external":external}),
            Input::StunAdd { peer, key } => json!({"t":"stun-add","peer":peer,"key":hex::encode(key)}),
            Input::StunRemove { peer } => json!({"t":"stun-remove","peer":peer}),
            Input::Tick(ms) => json!({"t":"tick","ms":ms}),
            Input::Step(q) => json!({"t":"step","q":q}),
        }
    }
    fn from_json(v: &Value) -> Option<Input> {
        let h32 = |s: &str| -> Option<Hash> { hex::decode(s).ok()?.try_into().ok() };
        let peer = v["peer"].as_u64().unwrap_or(0);
        Some(match v["t"].as_str()? {
            "msg" => Input::Msg { peer, bytes: hex::decode(v["hex"].as_str()?).ok()? },
            "fetched" => Input::Fetched { peer, hash: h32(v["hash"].as_str()?)?, id: v["id"].as_u64()?, bytes: hex::decode(v["hex"].as_str()?).ok()? },
            "failed" => Input::FetchFailed { peer, hash: h32(v["hash"].as_str()?)?, id: v["id"].as_u64()? },
            "connect" => Input::Connect { peer },
            "connect-err" => Input::ConnectErr,
            "disconnect" => Input::Disconnect { peer, external: v["external"].as_bool()? },
            "stun-add" => Input::StunAdd { peer, key: hex::decode(v["key"].as_str()?).ok()?.try_into().ok()? },
            "stun-remove" => Input::StunRemove { peer },
            "tick" => Input::Tick(v["ms"].as_u64()?),
            "step" => Input::Step(v["q"].as_u64()? as u8),
            _ => return None,
        })
    }
    fn handler(&self) -> String {
        match self {
            Input::Msg { bytes, .. } => format!("message-tag-{}", bytes.first().cloned().unwrap_or(0)),
            Input::Fetched { .. } => "block-fetched".into(),
            Input::FetchFailed { .. } => "block-fetch-failed".into(),
            Input::Connect { .. } | Input::ConnectErr => "peer-connection-result".into(),
            Input::Disconnect { .. } => "peer-disconnected".into(),
            Input::StunAdd { .. } => "stun-add".into(),
            Input::StunRemove { .. } => "stun-remove".into(),
            Input::Tick(_) => "timer".into(),
            Input::Step(0) => "verification-queue".into(),
            Input::Step(1) => "consensus-queue".into(),
            Input::Step(_) => "routing-queue".into(),
        }
    }
}

/// one generated input with what the generator knows about it
struct Item {
    input: Input,
    label: String,
    /// invalid by construction: after it is fully processed the honest-visible digest is unchanged
    must_reject: bool,
    hostile: bool,
}

#[derive(Clone, PartialEq)]
struct Digest {
    snap: Snapshot,
    honest_peer: Option<(bool, Option<PK>, String, usize, Vec<PK>)>,
    honest_addr: Option<u64>,
    queued_blocks: Vec<Hash>,
}

struct World {
    node: Node,
    env: c01::Env,
    all: Vec<Actor>,
    /// honest chain beyond the node's starting tip, in order
    future: Vec<Hash>,
    /// how many of `future` the honest peer has announced
    announced: usize,
    /// fetch requests the node has outstanding, by peer
    wanted: VecDeque<(u64, Hash, u64)>,
    history: Vec<Input>,
    labels: Vec<String>,
    start_blocks: Vec<Vec<u8>>,
    loaded: bool,
    last_challenge: BTreeMap<u64, Hash>,
    rejected_tx_sigs: BTreeSet<Vec<u8>>,
    next_index: u64,
    hostile_classes: BTreeSet<String>,
    /// whether this run delivers valid blocks ahead of their parents at all
    allow_parentless: bool,
    /// a block arrived before its parent while the node is in its not-loaded regime: from here
    /// on the chain state is in the condition recorded as a known finding of C03 / C05
    tainted: bool,
    /// a block with a placeholder standing for millions of transactions was handed to this node
    placeholder_bomb_sent: bool,
    /// a node in spv mode: ghost chains are legitimate input for it; only the crash / stall /
    /// allocation oracles apply
    spv: bool,
    /// did the last settle drain every queue?
    settled: bool,
    /// hostile blocks offered: hash -> class label
    offered: BTreeMap<Hash, String>,
}

fn q_of(n: u8) -> Queue {
    match n {
        0 => Queue::Verify,
        1 => Queue::Consensus,
        _ => Queue::Router,
    }
}

impl World {
    async fn new(rng: &mut Rng, loaded: bool, gp: u64, spv: bool, rep: &mut Report) -> Option<World> {
        let mut params = Params::with_gp(gp);
        params.loading_completed = loaded;
        let mut b = Builder::new(&params, 8, &default_issuance(8)).await;
        let g = b.genesis;
        let start = b.grow(rng, &g, 5, 2, 20).await;
        let end = b.grow(rng, &start, 5, 2, 20).await;
        let chain = b.store.ancestors(&end);
        let all = actors(8);
        let mut node_params = params.clone();
        node_params.spv = spv;
        let mut node = Node::new(&all[5], &node_params, MemIo::new(), VClock::new(T0 + 3_600_000), vec![], "http://n.example:1");
        if node.init().await.is_err() {
            rep.inconclusive("node init panicked");
            return None;
        }
        let mut start_blocks = vec![];
        let mut future = vec![];
        let mut reached = false;
        for h in &chain {
            if !reached {
                let bytes = b.store.get(h).bytes.clone();
                node.add_block_direct(&bytes).await;
                start_blocks.push(bytes);
            } else {
                future.push(*h);
            }
            if *h == start {
                reached = true;
            }
        }
        while node.rx_router.try_recv().is_ok() {}
        node.drain_side_channels();
        node.add_connected_peer(HONEST, &all[1].pk, "http://honest.example:1").await;
        let spent = c01::spent_on_chain(&mut b, &start);
        let env = c01::Env { b, tip: start, label: "c11", spent, nft_uuid: None };
        let mut w = World {
            node,
            env,
            all,
            future,
            announced: 0,
            wanted: VecDeque::new(),
            history: vec![],
            labels: vec![],
            start_blocks,
            loaded,
            last_challenge: BTreeMap::new(),
            rejected_tx_sigs: BTreeSet::new(),
            next_index: 10,
            hostile_classes: BTreeSet::new(),
            allow_parentless: loaded || rng.below(2) == 0,
            tainted: false,
            placeholder_bomb_sent: false,
            spv,
            settled: true,
            offered: BTreeMap::new(),
        };
        crate::watch::reset(json!({"kind": "peer-inputs", "loaded": loaded, "spv": spv, "gp": gp, "start_blocks": w.start_blocks.iter().map(hex::encode).collect::<Vec<_>>()}));
        // the attacker's two connections come up; one of them completes an honest handshake under
        // the attacker's own key
        for p in [ATT_AUTH, ATT_RAW] {
            if w.node.net(NetworkEvent::PeerConnectionResult { result: Ok((p, Some("10.6.6.6".into()))) }).await.is_err() {
                rep.inconclusive("connection setup panicked");
                return None;
            }
            w.collect();
        }
        if let Some(ch) = w.last_challenge.get(&ATT_AUTH).cloned() {
            let resp = handshake_response(&w.all[2], &ch, "http://attacker.example:1", false, 1);
            let _ = w.node.net(NetworkEvent::IncomingNetworkMessage { peer_index: ATT_AUTH, buffer: Message::HandshakeResponse(resp).serialize() }).await;
            w.collect();
        }
        {
            let peers = w.node.peers.read().await;
            let ok = peers.index_to_peers.get(&ATT_AUTH).map(|p| matches!(p.peer_status, PeerStatus::Connected)).unwrap_or(false);
            if !ok {
                rep.count("setup.attacker_handshake_not_completed");
            }
        }
        Some(w)
    }

    /// drain what the node sent: remember challenges and fetch requests
    fn collect(&mut self) {
        for m in self.node.io.take_outbox() {
            if let OutMsg::To(i, bytes) = m {
                if let Ok(Message::HandshakeChallenge(c)) = Message::deserialize(bytes) {
                    self.last_challenge.insert(i, c.challenge);
                }
            }
        }
        for f in self.node.io.take_fetches() {
            self.wanted.push_back((f.peer, f.hash, f.block_id));
            if self.wanted.len() > 64 {
                self.wanted.pop_front();
            }
        }
        let _ = self.node.io.take_events();
        let _ = self.node.io.take_disconnects();
        let _ = self.node.io.take_connects();
    }

    async fn digest(&self) -> Digest {
        let chain = self.node.chain.read().await;
        let wallet = self.node.wallet.read().await;
        let mempool = self.node.mempool.read().await;
        let peers = self.node.peers.read().await;
        let sigs = mempool.transactions.keys().map(|s| s.to_vec()).collect();
        Digest {
            snap: snapshot(&chain, &wallet, sigs),
            honest_peer: peers.index_to_peers.get(&HONEST).map(|p| (matches!(p.peer_status, PeerStatus::Connected), p.public_key, p.block_fetch_url.clone(), p.services.len(), p.key_list.clone())),
            honest_addr: peers.address_to_peers.get(&self.all[1].pk).cloned(),
            queued_blocks: mempool.blocks_queue.iter().map(|b| b.hash).collect(),
        }
    }

    fn witness(&self) -> Value {
        json!({
            "kind": "peer-inputs",
            "loaded": self.loaded,
            "spv": self.spv,
            "gp": self.env.b.params.gp,
            "start_blocks": self.start_blocks.iter().map(hex::encode).collect::<Vec<_>>(),
            "attacker_handshake": true,
            "inputs": self.history.iter().map(|i| i.to_json()).collect::<Vec<_>>(),
            "labels": self.labels.iter().rev().take(25).collect::<Vec<_>>(),
        })
    }

    /// one handler call, wrapped: panic capture, allocation bound, wall time
    async fn call(&mut self, input: &Input, rep: &mut Report) -> Result<(), PanicInfo> {
        self.history.push(input.clone());
        rep.count("handler_calls");
        rep.count(&format!("handler.{}", input.handler()));
        crate::watch::begin(&input.handler(), input.to_json());
        let base = alloc::arm();
        let t0 = Instant::now();
        let r = match input.clone() {
            Input::Msg { peer, bytes } => self.node.net(NetworkEvent::IncomingNetworkMessage { peer_index: peer, buffer: bytes }).await,
            Input::Fetched { peer, hash, id, bytes } => self.node.net(NetworkEvent::BlockFetched { block_hash: hash, block_id: id, peer_index: peer, buffer: bytes }).await,
            Input::FetchFailed { peer, hash, id } => self.node.net(NetworkEvent::BlockFetchFailed { block_hash: hash, peer_index: peer, block_id: id }).await,
            Input::Connect { peer } => self.node.net(NetworkEvent::PeerConnectionResult { result: Ok((peer, Some("10.6.6.7".into()))) }).await,
            Input::ConnectErr => self.node.net(NetworkEvent::PeerConnectionResult { result: Err(std::io::Error::new(std::io::ErrorKind::Other, "refused")) }).await,
            Input::Disconnect { peer, external } => {
                use saito_core::core::io::network::PeerDisconnectType;
                let t = if external { PeerDisconnectType::ExternalDisconnect } else { PeerDisconnectType::InternalDisconnect };
                self.node.net(NetworkEvent::PeerDisconnected { peer_index: peer, disconnect_type: t }).await
            }
            Input::StunAdd { peer, key } => self.node.net(NetworkEvent::AddStunPeer { peer_index: peer, public_key: key }).await,
            Input::StunRemove { peer } => self.node.net(NetworkEvent::RemoveStunPeer { peer_index: peer }).await,
            Input::Tick(ms) => self.node.tick(ms).await,
            Input::Step(q) => self.node.step(q_of(q)).await.map(|_| ()),
        };
        alloc::disarm();
        crate::watch::end();
        let peak = alloc::peak_above(base);
        let ms = t0.elapsed().as_millis() as u64;
        rep.max("handler_wall_ms", ms);
        rep.max("handler_peak_alloc_bytes", peak as u64);
        if ms > 5_000 {
            rep.note(&format!("handler {} took {} ms of wall time (reported, not judged)", input.handler(), ms));
        }
        if r.is_ok() && peak > ALLOC_BOUND {
            rep.violation(
                &format!("C11|clause=allocation-bound|handler={}{}", input.handler(), if self.placeholder_bomb_sent { "|cause=placeholder-replacement-count-in-fetched-block" } else { "" }),
                &format!("handler {} allocated {} bytes for an input of {} bytes", input.handler(), peak, match input { Input::Msg { bytes, .. } | Input::Fetched { bytes, .. } => bytes.len(), _ => 0 }),
                self.witness(),
            );
        }
        self.collect();
        r
    }

    /// run every queued inter-thread event (fixed order) — used around must-reject inputs
    async fn settle(&mut self, rep: &mut Report) -> Result<(), (String, PanicInfo)> {
        self.settled = false;
        for _ in 0..6000 {
            let p = self.node.pending();
            if p.is_empty() {
                self.settled = true;
                return Ok(());
            }
            let q = match p[0] {
                Queue::Verify => 0,
                Queue::Consensus => 1,
                _ => 2,
            };
            let inp = Input::Step(q);
            if let Err(e) = self.call(&inp, rep).await {
                return Err((inp.handler(), e));
            }
        }
        rep.count("settle_budget_exhausted");
        if std::env::var("SVH_DEBUG").is_ok() {
            eprintln!("settle exhausted: pending {:?} verify={} consensus={} router={} labels {:?}", self.node.pending(), self.node.rx_verify.len(), self.node.rx_consensus.len(), self.node.rx_router.len(), self.labels.iter().rev().take(5).collect::<Vec<_>>());
        }
        Ok(())
    }

    fn report_panic(&self, handler: &str, label: &str, p: &PanicInfo, rep: &mut Report) {
        // a node in spv mode takes block ids and amounts from its peer without validating them,
        // and so does the not-loaded branch of add_block after a block arrived before its parent:
        // arithmetic on invented ids / amounts overflows at many sites of the overflow-checked
        // build. That class gets one signature per regime; everything else keeps its call site.
        let overflow = p.message.starts_with("attempt to ") && p.message.contains("overflow");
        let signature = if overflow && self.spv {
            "C11|clause=handler-panic|class=arithmetic-overflow-in-overflow-checked-build|mode=spv".to_string()
        } else if overflow && self.tainted {
            "C11|clause=handler-panic|class=arithmetic-overflow-in-overflow-checked-build|cause=block-before-parent-while-not-loaded".to_string()
        } else {
            format!("C11|clause=handler-panic|handler={}|{}{}{}", handler, p.signature(), if self.spv { "|mode=spv" } else { "" }, if self.tainted { "|cause=block-before-parent-while-not-loaded" } else { "" })
        };
        rep.count(&format!("panic_sites.{}:{}", p.rel_file(), p.repo_frame.rsplit("::").next().unwrap_or("")));
        rep.violation(
            &signature,
            &format!("{} panicked at {}:{}: {} (input: {}; loaded={} spv={}; latest inputs first: {:?})", handler, p.rel_file(), p.line, p.message, label, self.loaded, self.spv, self.labels.iter().rev().take(10).collect::<Vec<_>>()),
            self.witness(),
        );
    }

    /// apply one generated item with the oracles; false ends the run (a worker died)
    async fn apply(&mut self, item: Item, rep: &mut Report) -> bool {
        self.labels.push(item.label.clone());
        if item.hostile {
            rep.count("hostile_inputs");
            self.hostile_classes.insert(item.label.split(|c| c == '[' || c == '@').next().unwrap_or("").to_string());
        } else {
            rep.count("honest_or_schedule_inputs");
        }
        let before = if item.must_reject && !self.spv {
            if let Err((h, p)) = self.settle(rep).await {
                self.report_panic(&h, "queued work before a must-reject input", &p, rep);
                return false;
            }
            if self.settled {
                Some(self.digest().await)
            } else {
                rep.count("rejected_inputs_not_judged_queue_not_drained");
                None
            }
        } else {
            None
        };
        if let Err(p) = self.call(&item.input, rep).await {
            self.report_panic(&item.input.handler(), &item.label, &p, rep);
            return false;
        }
        if let Some(before) = before {
            if let Err((h, p)) = self.settle(rep).await {
                self.report_panic(&h, &format!("work queued by {}", item.label), &p, rep);
                return false;
            }
            if !self.settled {
                rep.count("rejected_inputs_not_judged_queue_not_drained");
                return true;
            }
            let after = self.digest().await;
            rep.count("rejected_inputs_judged");
            rep.count(&format!("rejected.{}", item.label.split(|c| c == '[' || c == '@').next().unwrap_or("")));
            if before != after {
                let mut d = diff(&before.snap, &after.snap);
                if before.honest_peer != after.honest_peer {
                    d.push("honest peer entry changed".into());
                }
                if before.honest_addr != after.honest_addr {
                    d.push("honest key's address-map entry changed".into());
                }
                if before.queued_blocks != after.queued_blocks {
                    d.push(format!("block queue {} -> {}", before.queued_blocks.len(), after.queued_blocks.len()));
                }
                rep.violation(
                    &format!("C11|clause=rejected-input-changed-state|input={}{}", item.label.split(|c| c == '[' || c == '@').next().unwrap_or(""), if self.tainted { "|cause=block-before-parent-while-not-loaded" } else { "" }),
                    &format!("input {} is invalid by construction, yet after it was processed: {:?} (loaded={})", item.label, d.iter().take(6).collect::<Vec<_>>(), self.loaded),
                    self.witness(),
                );
            }
        }
        true
    }

    // ------------------------------------------------------------------ generators

    async fn node_tip(&self) -> (u64, Hash) {
        self.node.tip().await
    }

    fn next_honest_block(&self, tip: &Hash) -> Option<Hash> {
        // the honest block whose parent is the node's tip
        self.future.iter().find(|h| &self.env.b.store.get(h).prev == tip).cloned()
    }

    async fn hostile_message(&mut self, rng: &mut Rng) -> Item {
        let (tip_id, tip_hash) = self.node_tip().await;
        // (a node in spv mode may sit on a ghost block with an invented id)
        let tip_id = tip_id.min(1 << 50);
        let peer = *rng.pick(&[ATT_AUTH, ATT_AUTH, ATT_RAW, ATT_RAW, UNKNOWN]);
        let ids = [0u64, 1, tip_id, tip_id + 1, tip_id + 1000, 1 << 40, u64::MAX];
        let id = *rng.pick(&ids);
        let known = *rng.pick(&[tip_hash, [0u8; 32], self.env.b.genesis]);
        let h = if rng.below(2) == 0 { rng.hash32() } else { known };
        let fork = {
            let chain = self.node.chain.read().await;
            let real = chain.fork_id.unwrap_or([0; 32]);
            let fresh = rng.hash32();
            *rng.pick(&[[0u8; 32], real, fresh])
        };
        let attacker = self.all[2].clone();
        let mut must_reject = false;
        let (label, msg): (String, Message) = match rng.below(19) {
            0 => {
                let hb = self.future[rng.below(self.future.len() as u64) as usize];
                ("block-message".into(), Message::Block(self.env.b.store.get(&hb).block.clone()))
            }
            1 => (format!("chain-request[id={}]", id), Message::BlockchainRequest(blockchain_request(id, &h, &fork))),
            2 => (format!("header-hash[id={}]", id), Message::BlockHeaderHash(h, id)),
            3 => (format!("ghost-request[id={}]", id), Message::GhostChainRequest(id, h, fork)),
            4 => {
                let n = *rng.pick(&[0usize, 1, 3, 40]);
                let style = rng.below(4);
                let mut prev = if style == 0 { tip_hash } else { rng.hash32() };
                let start = prev;
                let mut g = GhostChainSync { start, prehashes: vec![], previous_block_hashes: vec![], block_ids: vec![], block_ts: vec![], txs: vec![], gts: vec![] };
                for i in 0..n {
                    let pre = rng.hash32();
                    g.prehashes.push(pre);
                    g.previous_block_hashes.push(prev);
                    g.block_ids.push(match style {
                        0 => tip_id + 1 + i as u64,
                        1 => u64::MAX - i as u64,
                        2 => 0,
                        _ => 1 + rng.below(2 * tip_id + 5),
                    });
                    g.block_ts.push(T0 + rng.below(1 << 40));
                    g.txs.push(rng.below(2) == 0);
                    g.gts.push(rng.below(2) == 0);
                    prev = hash(&[prev.as_slice(), pre.as_slice()].concat());
                }
                (format!("ghost-chain[n={},style={}]", n, style), Message::GhostChain(g))
            }
            5 => {
                let n = *rng.pick(&[0usize, 1, 3, 300]);
                (format!("key-list[n={}]", n), Message::KeyListUpdate((0..n).map(|i| self.all[i % 8].pk).collect()))
            }
            6 => {
                let n = *rng.pick(&[0usize, 3, 200]);
                (format!("services[n={}]", n), Message::Services(services(n)))
            }
            7 => {
                let m = ApiMessage { msg_index: rng.below(1 << 32) as u32, data: rbytes(rng, &[0, 7, 299]) };
                match rng.below(3) {
                    0 => ("api-call".into(), Message::ApplicationMessage(m)),
                    1 => ("api-result".into(), Message::Result(m)),
                    _ => ("api-error".into(), Message::Error(m)),
                }
            }
            8 => ("challenge".into(), Message::HandshakeChallenge(HandshakeChallenge { challenge: rng.hash32() })),
            9 => {
                let ch = self.last_challenge.get(&peer).cloned().unwrap_or_else(|| rng.hash32());
                let variant = rng.below(5);
                let mut r = handshake_response(&attacker, &ch, "http://attacker.example:1", rng.below(2) == 0, rng.below(3) as usize);
                match variant {
                    0 => {}
                    1 => r.signature[5] ^= 1,
                    2 => r.public_key = self.all[1].pk,
                    3 => r.core_version = Version::new(9, 9, 9),
                    _ => r.challenge = rng.hash32(),
                }
                (format!("handshake-response[v={}]", variant), Message::HandshakeResponse(r))
            }
            10 => ("ping".into(), if rng.below(2) == 0 { Message::Ping() } else { Message::SPVChain() }),
            11 | 12 => {
                // a transaction that is invalid by the property's own terms (C01 catalogue)
                self.env.tip = if self.env.b.store.has(&tip_hash) { tip_hash } else { self.env.tip };
                let cat = c01::catalogue(&mut self.env, rng);
                let ledger = self.env.b.store.ledger(&self.env.tip);
                let gp = self.env.b.params.gp;
                let pool: Vec<&c01::Artefact> = cat.iter().filter(|a| a.pool_gates && c01::ref_invalid(&a.tx, &ledger, gp, tip_id + 1).is_some()).collect();
                if pool.is_empty() || !self.env.b.store.has(&tip_hash) {
                    ("ping".into(), Message::Ping())
                } else {
                    let a = pool[rng.below(pool.len() as u64) as usize];
                    must_reject = true;
                    self.rejected_tx_sigs.insert(a.tx.signature.to_vec());
                    (format!("invalid-transaction[{}]", a.edit), Message::Transaction(a.tx.clone()))
                }
            }
            13 => {
                // a valid payment by the attacker (accepted traffic)
                let mut ex = vec![];
                let at = if self.env.b.store.has(&tip_hash) { tip_hash } else { self.env.tip };
                match self.env.b.payment(rng, &at, 2, 3, 5, 30, &mut ex) {
                    Some(tx) => ("valid-transaction".into(), Message::Transaction(tx)),
                    None => ("ping".into(), Message::Ping()),
                }
            }
            14 => {
                // golden ticket transactions: wrong payload length, unknown target, valid shape
                // built like Wallet::create_golden_ticket_transaction (zero-value slips of the
                // signer), so that it passes the transaction gates and reaches the pool's own guard
                let honest_gt = mine_gt(rng, tip_hash, 0, &attacker.pk);
                let mut tx = gt_tx(&honest_gt, &attacker);
                let variant = rng.below(4);
                match variant {
                    0 => tx.data = rbytes(rng, &[0usize, 1, 96, 98, 500]),
                    1 => tx.data = rng.bytes(97),
                    2 => {}
                    _ => {
                        // a well-formed ticket followed by trailing bytes
                        let extra = rbytes(rng, &[1usize, 3, 97]);
                        tx.data.extend_from_slice(&extra);
                    }
                };
                tx.timestamp = T0 + 10;
                tx.sign(&attacker.sk);
                (format!("golden-ticket-transaction[v={}]", variant), Message::Transaction(tx))
            }
            15 => {
                // transaction types that only a block producer may create, sent loose
                let t = *rng.pick(&[TransactionType::Fee, TransactionType::Issuance, TransactionType::ATR, TransactionType::BlockStake, TransactionType::SPV, TransactionType::Bound]);
                let mut tx = build_tx(&attacker, &[], &[(attacker.pk, 1_000_000)], T0 + 20, &rbytes(rng, &[0, 5, 39]));
                tx.transaction_type = t;
                tx.sign(&attacker.sk);
                must_reject = matches!(t, TransactionType::Fee | TransactionType::Issuance | TransactionType::ATR | TransactionType::BlockStake | TransactionType::SPV);
                if must_reject {
                    self.rejected_tx_sigs.insert(tx.signature.to_vec());
                }
                (format!("loose-producer-transaction[{:?}]", t), Message::Transaction(tx))
            }
            16 => {
                // signatures whose r or s is not a scalar of the curve (the group order itself, all
                // ones, zero): they do not decode as signatures at all
                const N: [u8; 32] = [0xFF, 0xFF, 0xFF, 0xFF, 0xFF, 0xFF, 0xFF, 0xFF, 0xFF, 0xFF, 0xFF, 0xFF, 0xFF, 0xFF, 0xFF, 0xFE, 0xBA, 0xAE, 0xDC, 0xE6, 0xAF, 0x48, 0xA0, 0x3B, 0xBF, 0xD2, 0x5E, 0x8C, 0xD0, 0x36, 0x41, 0x41];
                let mut tx = build_tx(&attacker, &[], &[(attacker.pk, 0)], T0 + 25, &rbytes(rng, &[0usize, 7]));
                let half = rng.below(2) as usize * 32;
                let v = rng.below(3);
                let val: [u8; 32] = match v {
                    0 => N,
                    1 => [0xFF; 32],
                    _ => [0; 32],
                };
                tx.signature[half..half + 32].copy_from_slice(&val);
                must_reject = true;
                self.rejected_tx_sigs.insert(tx.signature.to_vec());
                (format!("transaction-with-out-of-range-signature[{}={}]", if half == 0 { "r" } else { "s" }, ["n", "ones", "zero"][v as usize]), Message::Transaction(tx))
            }
            17 => {
                // shaped like an NFT transfer on the input side (bound, normal, bound), with too
                // few outputs
                use saito_core::core::consensus::slip::SlipType;
                let mut tx = build_tx(&attacker, &[], &[], T0 + 26, &[]);
                tx.from.clear();
                tx.to.clear();
                for (i, t) in [SlipType::Bound, SlipType::Normal, SlipType::Bound].iter().enumerate() {
                    let mut sl = out_slip(&attacker.pk, [1u64, 500, 0][i]);
                    sl.slip_type = *t;
                    sl.block_id = 1;
                    sl.slip_index = i as u8;
                    tx.add_from_slip(sl);
                }
                let outs = 1 + rng.below(3) as usize;
                for i in 0..outs {
                    let mut sl = out_slip(&attacker.pk, [1u64, 400, 0][i]);
                    if i != 1 {
                        sl.slip_type = SlipType::Bound;
                    }
                    tx.add_to_slip(sl);
                }
                tx.transaction_type = TransactionType::Bound;
                tx.sign(&attacker.sk);
                (format!("nft-shaped-transaction[{}-outputs]", outs), Message::Transaction(tx))
            }
            _ => {
                let mut tx = build_tx(&attacker, &[], &[], T0 + 30, &rbytes(rng, &[0usize, 10, 100_000]));
                if rng.below(2) == 0 {
                    let a1 = self.all[3].clone();
                    let a2 = self.all[4].clone();
                    add_path(&mut tx, &attacker, &[&a1, &a2]);
                }
                ("data-transaction".into(), Message::Transaction(tx))
            }
        };
        // what does not reach an authenticated, known connection cannot be judged "invalid by
        // construction" on content alone — only the catalogue cases above are
        let mut bytes = msg.serialize();
        let mut label = label;
        // one message in eight is cut short (C10 decides the decoders; here the point is what the
        // handler does with a buffer that may or may not decode)
        if rng.below(8) == 0 && bytes.len() > 2 {
            let cut = match rng.below(3) {
                0 => bytes.len() - 1,
                1 => 1 + rng.below(bytes.len() as u64 - 1) as usize,
                _ => bytes.len().saturating_sub(1 + rng.below(bytes.len().min(45) as u64) as usize).max(1),
            };
            bytes.truncate(cut);
            label = format!("truncated:{}", label);
            must_reject = false;
        }
        Item { input: Input::Msg { peer, bytes }, label: format!("{}@{}", label, peer_name(peer)), must_reject, hostile: true }
    }

    async fn hostile_fetch(&mut self, rng: &mut Rng, rep: &mut Report) -> Option<Item> {
        let variant = rng.below(13);
        if matches!(variant, 0 | 1 | 2 | 3 | 7) {
            // "invalid by construction" is judged against the tip the block will meet: queued
            // work (an honest block about to be added) runs first
            if let Err((h, p)) = self.settle(rep).await {
                self.report_panic(&h, "queued work before a must-reject block", &p, rep);
                return None;
            }
        }
        let (tip_id, tip_hash) = self.node_tip().await;
        let tip_id = tip_id.min(1 << 50);
        // answer an outstanding request addressed to the attacker, or push an unsolicited completion
        let req = self.wanted.iter().position(|w| w.0 != HONEST).and_then(|i| self.wanted.remove(i));
        let peer = req.map(|r| r.0).unwrap_or(*rng.pick(&[ATT_AUTH, ATT_RAW, UNKNOWN]));
        let next = self.next_honest_block(&tip_hash);
        let mut must_reject = false;
        let (label, hash_, id, bytes): (String, Hash, u64, Vec<u8>) = match (variant, next) {
            (0, Some(n)) => {
                // a corrupted copy of the next honest block (one validity rule broken, resealed)
                let s = self.env.b.store.get(&n);
                let mut blk = Block::deserialize_from_net(&s.bytes).unwrap();
                let _ = blk.generate();
                let creator = self.env.b.creator().clone();
                let kind = KINDS[rng.below(KINDS.len() as u64) as usize];
                if corrupt(&mut blk, kind, &creator, rng) {
                    must_reject = true;
                    (format!("invalid-block[{:?}]", kind), blk.hash, blk.id, blk.serialize_for_net(saito_core::core::consensus::block::BlockType::Full))
                } else {
                    ("empty-buffer".into(), rng.hash32(), tip_id + 1, vec![])
                }
            }
            (1, Some(n)) => {
                // a valid block delivered under another hash
                must_reject = true;
                let s = self.env.b.store.get(&n);
                ("block-under-wrong-hash".into(), rng.hash32(), s.id, s.bytes.clone())
            }
            (2, Some(n)) => {
                let s = self.env.b.store.get(&n);
                must_reject = true;
                let cut = 1 + rng.below(s.bytes.len() as u64 - 1) as usize;
                ("truncated-block".into(), s.hash, s.id, s.bytes[..cut].to_vec())
            }
            (3, _) => {
                must_reject = true;
                ("random-buffer".into(), rng.hash32(), tip_id + 1, rbytes(rng, &[0usize, 1, 100, 301, 5000]))
            }
            (4, _) => {
                // a valid block far ahead of the node (parent unknown to it)
                let ahead: Vec<Hash> = self.future.iter().filter(|h| self.env.b.store.get(h).id > tip_id + 1).cloned().collect();
                if ahead.is_empty() || !self.allow_parentless {
                    must_reject = true;
                    ("random-buffer".into(), rng.hash32(), tip_id + 1, rng.bytes(40))
                } else {
                    let s = self.env.b.store.get(&ahead[rng.below(ahead.len() as u64) as usize]);
                    if !self.loaded {
                        self.tainted = true;
                    }
                    ("valid-block-before-its-parent".into(), s.hash, s.id, s.bytes.clone())
                }
            }
            (5, Some(n)) => {
                // the valid next block, unsolicited (accepted traffic)
                let s = self.env.b.store.get(&n);
                ("valid-next-block-unsolicited".into(), s.hash, s.id, s.bytes.clone())
            }
            (6, _) => {
                // a block the node already has
                let anc = self.env.b.store.ancestors(&self.env.tip);
                let s = self.env.b.store.get(&anc[rng.below(anc.len() as u64) as usize]);
                ("block-already-held".into(), s.hash, s.id, s.bytes.clone())
            }
            (7, Some(n)) => {
                // valid block, hostile claimed id
                must_reject = true;
                let s = self.env.b.store.get(&n);
                ("block-under-wrong-id".into(), s.hash, *rng.pick(&[0u64, u64::MAX, s.id + 1]), s.bytes.clone())
            }
            (8 | 9, Some(n)) => {
                // the next honest block with its transaction list tampered with and resealed by
                // its creator's key: exercises Block::generate / validate on hostile content
                let s = self.env.b.store.get(&n);
                let mut blk = Block::deserialize_from_net(&s.bytes).unwrap();
                let creator = self.env.b.creator().clone();
                // (the last variant costs about a minute of CPU per use - the tree is hashed on all cores -: once per node, in one node of 120)
                let m = if !self.placeholder_bomb_sent && rng.below(120) == 0 { 8 } else { rng.below(8) };
                let ntx = blk.transactions.len();
                let mut skip_reseal = false;
                let name = match m {
                    0 => {
                        if let Some(t) = blk.transactions.iter_mut().find(|t| t.transaction_type == TransactionType::GoldenTicket) {
                            t.data = rbytes(rng, &[0usize, 1, 96, 98, 300]);
                        }
                        "golden-ticket-payload-length"
                    }
                    1 => {
                        if ntx > 0 {
                            let t = blk.transactions[rng.below(ntx as u64) as usize].clone();
                            blk.transactions.push(t);
                        }
                        "duplicated-transaction"
                    }
                    2 => {
                        blk.transactions.retain(|t| t.transaction_type != TransactionType::Fee);
                        "fee-transaction-dropped"
                    }
                    3 => {
                        if let Some(t) = blk.transactions.iter_mut().find(|t| t.transaction_type == TransactionType::Fee) {
                            for o in t.to.iter_mut() {
                                o.amount = u64::MAX / 2;
                            }
                        }
                        "fee-outputs-inflated"
                    }
                    4 => {
                        if ntx > 0 {
                            let i = rng.below(ntx as u64) as usize;
                            blk.transactions[i].transaction_type = *rng.pick(&[TransactionType::Fee, TransactionType::Issuance, TransactionType::ATR, TransactionType::GoldenTicket, TransactionType::SPV, TransactionType::Bound, TransactionType::BlockStake]);
                        }
                        "transaction-retyped"
                    }
                    5 => {
                        blk.transactions.clear();
                        "no-transactions"
                    }
                    6 => {
                        for t in blk.transactions.iter_mut() {
                            for o in t.to.iter_mut() {
                                o.amount = u64::MAX;
                            }
                        }
                        "all-outputs-maximal"
                    }
                    7 => {
                        blk.transactions.reverse();
                        "transactions-reversed"
                    }
                    _ => {
                        // a placeholder that claims to stand for millions of transactions, in a block
                        // whose merkle root is left for the receiver to compute
                        let mut ph = saito_core::core::consensus::transaction::Transaction::default();
                        ph.transaction_type = TransactionType::SPV;
                        ph.txs_replacements = 2_000_000;
                        self.placeholder_bomb_sent = true;
                        blk.transactions.push(ph);
                        blk.merkle_root = [0; 32];
                        skip_reseal = true;
                        "placeholder-replacement-count"
                    }
                };
                if !skip_reseal {
                    crate::props::c04::reseal(&mut blk, &creator, true);
                }
                (format!("tampered-block[{}]", name), blk.hash, blk.id, blk.serialize_for_net(saito_core::core::consensus::block::BlockType::Full))
            }
            (10 | 11, Some(n)) if self.allow_parentless => {
                // a block signed by its creator that claims a far-away id and an unknown parent
                let s = self.env.b.store.get(&n);
                let mut blk = Block::deserialize_from_net(&s.bytes).unwrap();
                let creator = self.env.b.creator().clone();
                blk.id = *rng.pick(&[tip_id + 1000, 1 << 40, u64::MAX - 1, u64::MAX, 0]);
                if rng.below(2) == 0 {
                    blk.previous_block_hash = rng.hash32();
                }
                if !self.loaded {
                    self.tainted = true;
                }
                crate::props::c04::reseal(&mut blk, &creator, false);
                (format!("far-id-block[id={}]", blk.id), blk.hash, blk.id, blk.serialize_for_net(saito_core::core::consensus::block::BlockType::Full))
            }
            _ => {
                let (p, h, i) = req.unwrap_or((peer, rng.hash32(), tip_id + 1));
                return Some(Item { input: Input::FetchFailed { peer: p, hash: h, id: i }, label: format!("fetch-failed@{}", peer_name(p)), must_reject: false, hostile: true });
            }
        };
        let (hash_, id) = match (req, rng.below(2)) {
            // answering a real request keeps the requested coordinates half of the time
            (Some((_, h, i)), 0) if !must_reject => (h, i),
            _ => (hash_, id),
        };
        if label.starts_with("tampered-block") || label.starts_with("invalid-block") || label.starts_with("far-id-block") {
            if let Ok(mut b) = Block::deserialize_from_net(&bytes) {
                // (an edit that does not change the hash - a flipped signature bit, a tamper that
                // found nothing to change - is the honest block as far as identity goes)
                if b.generate().is_ok() && !self.env.b.store.has(&b.hash) {
                    self.offered.insert(b.hash, label.clone());
                }
            }
        }
        Some(Item { input: Input::Fetched { peer, hash: hash_, id, bytes }, label: format!("{}@{}", label, peer_name(peer)), must_reject, hostile: true })
    }

    fn connection_event(&mut self, rng: &mut Rng) -> Item {
        let peer = *rng.pick(&[ATT_AUTH, ATT_RAW, UNKNOWN]);
        let (label, input) = match rng.below(6) {
            0 => ("disconnect-external".to_string(), Input::Disconnect { peer, external: true }),
            1 => ("disconnect-internal".to_string(), Input::Disconnect { peer, external: false }),
            2 => {
                self.next_index += 1;
                ("new-connection".to_string(), Input::Connect { peer: self.next_index })
            }
            3 => ("connection-error".to_string(), Input::ConnectErr),
            4 => {
                self.next_index += 1;
                ("stun-add".to_string(), Input::StunAdd { peer: self.next_index, key: self.all[(2 + rng.below(3)) as usize].pk })
            }
            _ => ("stun-remove".to_string(), Input::StunRemove { peer: if rng.below(2) == 0 { self.next_index } else { peer } }),
        };
        Item { input, label: format!("{}@{}", label, peer_name(peer)), must_reject: false, hostile: true }
    }

    async fn honest_traffic(&mut self, rng: &mut Rng) -> Option<Item> {
        // an outstanding request to the honest peer is answered correctly
        if let Some(i) = self.wanted.iter().position(|w| w.0 == HONEST) {
            let (_, h, id) = self.wanted.remove(i).unwrap();
            if self.env.b.store.has(&h) {
                let bytes = self.env.b.store.get(&h).bytes.clone();
                return Some(Item { input: Input::Fetched { peer: HONEST, hash: h, id, bytes }, label: format!("honest-fetch[id={}]", id), must_reject: false, hostile: false });
            }
            return Some(Item { input: Input::FetchFailed { peer: HONEST, hash: h, id }, label: "honest-fetch-failed".into(), must_reject: false, hostile: false });
        }
        if self.announced < self.future.len() && rng.below(3) == 0 {
            let h = self.future[self.announced];
            self.announced += 1;
            let id = self.env.b.store.get(&h).id;
            return Some(Item { input: Input::Msg { peer: HONEST, bytes: Message::BlockHeaderHash(h, id).serialize() }, label: format!("honest-announce[id={}]", id), must_reject: false, hostile: false });
        }
        None
    }

    /// after the hostile traffic stops the honest chain must still be adopted
    async fn drain(&mut self, rep: &mut Report) -> bool {
        let end = *self.future.last().unwrap();
        for round in 0..60 {
            // re-announce everything (a real peer repeats its chain on request)
            if round % 10 == 0 {
                for h in self.future.clone() {
                    let id = self.env.b.store.get(&h).id;
                    let it = Item { input: Input::Msg { peer: HONEST, bytes: Message::BlockHeaderHash(h, id).serialize() }, label: format!("drain-announce[id={}]", id), must_reject: false, hostile: false };
                    if !self.apply(it, rep).await {
                        return false;
                    }
                }
            }
            // every outstanding request is answered: honest ones correctly, the attacker's fail
            while let Some((p, h, id)) = self.wanted.pop_front() {
                let it = if p == HONEST && self.env.b.store.has(&h) {
                    let bytes = self.env.b.store.get(&h).bytes.clone();
                    Item { input: Input::Fetched { peer: p, hash: h, id, bytes }, label: format!("drain-fetch[id={}]", id), must_reject: false, hostile: false }
                } else {
                    Item { input: Input::FetchFailed { peer: p, hash: h, id }, label: "drain-fetch-failed".into(), must_reject: false, hostile: false }
                };
                if !self.apply(it, rep).await {
                    return false;
                }
            }
            if let Err((h, p)) = self.settle(rep).await {
                self.report_panic(&h, "drain", &p, rep);
                return false;
            }
            let it = Item { input: Input::Tick(2_000), label: "drain-tick".into(), must_reject: false, hostile: false };
            if !self.apply(it, rep).await {
                return false;
            }
            if self.node_tip().await.1 == end {
                rep.max("drain_rounds", round + 1);
                rep.count("honest_chain_adopted_after_hostile_traffic");
                break;
            }
        }
        let (tid, th) = self.node_tip().await;
        let end_id = self.env.b.store.get(&end).id;
        if th != end && tid == end_id {
            // a competing block of the same height that the node judged valid and saw first (a
            // creator signing two blocks): equal length, the fork choice may keep either
            rep.count("equal_length_competing_tip_at_end");
        }
        if th != end && tid != end_id {
            let classes: Vec<&String> = self.hostile_classes.iter().collect();
            let cause = if self.tainted { "block-before-parent-while-not-loaded" } else { "unattributed" };
            rep.violation(
                &format!("C11|clause=honest-chain-not-adopted-after-hostile-traffic|cause={}|loaded={}", cause, self.loaded),
                &format!("after the hostile traffic stopped, 60 rounds of honest announcements and correctly answered fetches left the node at block {} ({}) instead of the honest tip {} (hostile input classes seen: {:?})", tid, hex::encode(&th[..4]), self.env.b.store.get(&end).id, classes),
                self.witness(),
            );
        }
        // which hostile blocks ended up on the longest chain?
        {
            let chain = self.node.chain.read().await;
            for (h, label) in self.offered.iter() {
                if let Some(b) = chain.blocks.get(h) {
                    if b.in_longest_chain {
                        rep.count(&format!("hostile_block_on_longest_chain.{}", label));
                        if label.starts_with("invalid-block") || label.starts_with("far-id-block") {
                            rep.violation(
                                &format!("C11|clause=invalid-block-adopted|input={}{}", label.split('[').next().unwrap_or(""), if self.tainted { "|cause=block-before-parent-while-not-loaded" } else { "" }),
                                &format!("the block offered as {} is invalid by construction and sits on the node's longest chain at the end of the run (loaded={})", label, self.loaded),
                                self.witness(),
                            );
                        }
                    }
                }
            }
        }
        // no transaction that was invalid by construction sits in the pool
        let mempool = self.node.mempool.read().await;
        for sig in mempool.transactions.keys() {
            if self.rejected_tx_sigs.contains(&sig.to_vec()) {
                rep.violation("C11|clause=invalid-transaction-pooled", "a transaction that is invalid by construction sits in the pool at the end of the run", self.witness());
            }
        }
        true
    }
}

fn rbytes(rng: &mut Rng, lens: &[usize]) -> Vec<u8> {
    let n = *rng.pick(lens);
    rng.bytes(n)
}

fn peer_name(p: u64) -> &'static str {
    match p {
        HONEST => "honest",
        ATT_AUTH => "attacker-authenticated",
        ATT_RAW => "attacker-unauthenticated",
        UNKNOWN => "unknown-index",
        _ => "other",
    }
}

async fn one_run(rng: &mut Rng, loaded: bool, gp: u64, spv: bool, len: u64, rep: &mut Report) {
    let mut w = match World::new(rng, loaded, gp, spv, rep).await {
        Some(w) => w,
        None => return,
    };
    rep.eval();
    rep.count(if spv { "runs.spv" } else if loaded { "runs.loaded" } else { "runs.not-loaded" });
    for _ in 0..len {
        let item = match rng.below(20) {
            0..=8 => w.hostile_message(rng).await,
            9..=11 => match w.hostile_fetch(rng, rep).await {
                Some(i) => i,
                None => {
                    rep.count("runs_ended_by_panic");
                    return;
                }
            },
            12 => w.connection_event(rng),
            13..=15 => match w.honest_traffic(rng).await {
                Some(i) => i,
                None => Item { input: Input::Tick(*rng.pick(&[100u64, 2_000, 5_000, 61_000])), label: "tick".into(), must_reject: false, hostile: false },
            },
            16 if rng.below(4) == 0 => {
                // a flood: the same hostile message repeated (handshake / key-list limiters are 100 per minute)
                let it = w.hostile_message(rng).await;
                let n = *rng.pick(&[20u64, 120, 250]);
                rep.count("floods");
                let mut ok = true;
                for _ in 0..n {
                    let again = Item { input: it.input.clone(), label: format!("flood:{}", it.label), must_reject: false, hostile: true };
                    if !w.apply(again, rep).await {
                        ok = false;
                        break;
                    }
                }
                if !ok {
                    rep.count("runs_ended_by_panic");
                    return;
                }
                continue;
            }
            16 => Item { input: Input::Tick(*rng.pick(&[100u64, 2_000, 5_000, 61_000])), label: "tick".into(), must_reject: false, hostile: false },
            _ => {
                let p = w.node.pending();
                if p.is_empty() {
                    continue;
                }
                let q = match rng.pick(&p) {
                    Queue::Verify => 0,
                    Queue::Consensus => 1,
                    _ => 2,
                };
                Item { input: Input::Step(q), label: format!("step-{}", q), must_reject: false, hostile: false }
            }
        };
        if !w.apply(item, rep).await {
            rep.count("runs_ended_by_panic");
            return;
        }
    }
    if !spv && !w.drain(rep).await {
        rep.count("runs_ended_by_panic");
        return;
    }
    rep.nontrivial(&format!("run|{}|{:?}", loaded, w.labels.iter().take(40).collect::<Vec<_>>()));
    if rep.samples.len() < 2 {
        rep.sample(json!({"loaded": loaded, "inputs": w.labels.iter().take(40).collect::<Vec<_>>()}));
    }
}

async fn replay(path: &str, rep: &mut Report) {
    let text = std::fs::read_to_string(path).expect("replay file");
    let v: Value = serde_json::from_str(&text).expect("replay json");
    let r = &v["replay"];
    let loaded = r["loaded"].as_bool().unwrap_or(false);
    let mut params = Params::with_gp(r["gp"].as_u64().unwrap_or(50));
    params.loading_completed = loaded;
    params.spv = r["spv"].as_bool().unwrap_or(false);
    let all = actors(8);
    let mut node = Node::new(&all[5], &params, MemIo::new(), VClock::new(T0 + 3_600_000), Vec::<PeerConfig>::new(), "http://n.example:1");
    let _ = node.init().await;
    for b in r["start_blocks"].as_array().cloned().unwrap_or_default() {
        node.add_block_direct(&hex::decode(b.as_str().unwrap_or("")).unwrap_or_default()).await;
    }
    while node.rx_router.try_recv().is_ok() {}
    node.add_connected_peer(HONEST, &all[1].pk, "http://honest.example:1").await;
    let mut last_challenge: BTreeMap<u64, Hash> = BTreeMap::new();
    for p in [ATT_AUTH, ATT_RAW] {
        let _ = node.net(NetworkEvent::PeerConnectionResult { result: Ok((p, Some("10.6.6.6".into()))) }).await;
        for m in node.io.take_outbox() {
            if let OutMsg::To(i, bytes) = m {
                if let Ok(Message::HandshakeChallenge(c)) = Message::deserialize(bytes) {
                    last_challenge.insert(i, c.challenge);
                }
            }
        }
    }
    // the challenge is random per process: the recorded response is re-signed over the new one
    if let Some(ch) = last_challenge.get(&ATT_AUTH) {
        let resp = handshake_response(&all[2], ch, "http://attacker.example:1", false, 1);
        let _ = node.net(NetworkEvent::IncomingNetworkMessage { peer_index: ATT_AUTH, buffer: Message::HandshakeResponse(resp).serialize() }).await;
    }
    let inputs: Vec<Input> = r["inputs"].as_array().map(|a| a.iter().filter_map(Input::from_json).collect()).unwrap_or_default();
    rep.eval();
    for (n, input) in inputs.iter().enumerate() {
        let res = match input.clone() {
            Input::Msg { peer, bytes } => node.net(NetworkEvent::IncomingNetworkMessage { peer_index: peer, buffer: bytes }).await,
            Input::Fetched { peer, hash, id, bytes } => node.net(NetworkEvent::BlockFetched { block_hash: hash, block_id: id, peer_index: peer, buffer: bytes }).await,
            Input::FetchFailed { peer, hash, id } => node.net(NetworkEvent::BlockFetchFailed { block_hash: hash, peer_index: peer, block_id: id }).await,
            Input::Connect { peer } => node.net(NetworkEvent::PeerConnectionResult { result: Ok((peer, Some("10.6.6.7".into()))) }).await,
            Input::ConnectErr => node.net(NetworkEvent::PeerConnectionResult { result: Err(std::io::Error::new(std::io::ErrorKind::Other, "refused")) }).await,
            Input::Disconnect { peer, external } => {
                use saito_core::core::io::network::PeerDisconnectType;
                let t = if external { PeerDisconnectType::ExternalDisconnect } else { PeerDisconnectType::InternalDisconnect };
                node.net(NetworkEvent::PeerDisconnected { peer_index: peer, disconnect_type: t }).await
            }
            Input::StunAdd { peer, key } => node.net(NetworkEvent::AddStunPeer { peer_index: peer, public_key: key }).await,
            Input::StunRemove { peer } => node.net(NetworkEvent::RemoveStunPeer { peer_index: peer }).await,
            Input::Tick(ms) => node.tick(ms).await,
            Input::Step(q) => node.step(q_of(q)).await.map(|_| ()),
        };
        if let Err(p) = res {
            rep.violation(&format!("C11|clause=handler-panic|handler={}|{}", input.handler(), p.signature()), &format!("replayed input #{}: {} panicked at {}:{}: {}", n, input.handler(), p.rel_file(), p.line, p.message), r.clone());
            return;
        }
    }
    rep.note("replay: every handler returned");
}

pub async fn run(ctx: &Ctx, rep: &mut Report) {
    if let Some(path) = &ctx.replay {
        replay(path, rep).await;
        return;
    }
    crate::logsink::install();
    let mut rng = ctx.rng();
    let runs = ctx.scale(1200, 40_000) / ctx.shards.max(1) + 1;
    for r in 0..runs {
        let loaded = r % 2 == 0;
        let gp = if r % 3 == 0 { 20 } else { 50 };
        let spv = r % 5 == 4;
        one_run(&mut rng, loaded, gp, spv, ctx.scale(160, 260), rep).await;
    }
    rep.add("log_records_formatted", crate::logsink::records());
}
