//! One module per property: workload family + monitors.
use crate::report::Report;
use crate::rng::Rng;

pub mod c01;
pub mod c02;
pub mod c03;
pub mod c04;
pub mod c05;
pub mod c06;
pub mod c07;
pub mod c08;
pub mod c09;
pub mod c10;
pub mod c11;
pub mod c12;
pub mod c13;
pub mod c14;
pub mod c15;
pub mod c16;
pub mod c17;
pub mod c18;
pub mod c19;
pub mod c20;

#[derive(Clone, Debug)]
pub struct Ctx {
    pub seed: u64,
    pub thorough: bool,
    pub shard: u64,
    pub shards: u64,
    pub replay: Option<String>,
    /// "prod" or "chk" (release + overflow-checks + debug-assertions)
    pub build: String,
}

impl Ctx {
    pub fn rng(&self) -> Rng {
        Rng::new(self.seed.wrapping_mul(1000).wrapping_add(self.shard))
    }
    pub fn tier(&self) -> &'static str {
        if self.thorough {
            "thorough"
        } else {
            "quick"
        }
    }
    /// scale a quick-tier budget for the thorough tier
    pub fn scale(&self, quick: u64, thorough: u64) -> u64 {
        if self.thorough {
            thorough
        } else {
            quick
        }
    }
    /// does this shard own work item `i`?
    pub fn mine(&self, i: u64) -> bool {
        i % self.shards == self.shard
    }
}

pub async fn dispatch(prop: &str, ctx: &Ctx, rep: &mut Report) -> bool {
    match prop {
        "C01" => c01::run(ctx, rep).await,
        "C02" => c02::run(ctx, rep).await,
        "C03" => c03::run(ctx, rep).await,
        "C04" => c04::run(ctx, rep).await,
        "C05" => c05::run(ctx, rep).await,
        "C06" => c06::run(ctx, rep).await,
        "C07" => c07::run(ctx, rep).await,
        "C08" => c08::run(ctx, rep).await,
        "C09" => c09::run(ctx, rep).await,
        "C10" => c10::run(ctx, rep).await,
        "C11" => c11::run(ctx, rep).await,
        "C12" => c12::run(ctx, rep).await,
        "C13" => c13::run(ctx, rep).await,
        "C14" => c14::run(ctx, rep).await,
        "C15" => c15::run(ctx, rep).await,
        "C16" => c16::run(ctx, rep).await,
        "C17" => c17::run(ctx, rep).await,
        "C18" => c18::run(ctx, rep).await,
        "C19" => c19::run(ctx, rep).await,
        "C20" => c20::run(ctx, rep).await,
        _ => return false,
    }
    true
}
