//! C16 — the block-fetch scheduler is bounded, ordered, duplicate-free, complete and retries a
//! failing block only a bounded number of times. Judged at the I/O boundary: the
//! `fetch_block_from_peer` calls that reach the MemIo when the scheduler is driven through the
//! routing thread's announce / fetched / failed / timer / blockchain-updated events.
use std::collections::{BTreeMap, BTreeSet};

use saito_core::core::io::network_event::NetworkEvent;
use saito_core::core::msg::message::Message;
use saito_core::core::process::process_event::ProcessEvent;
use saito_core::core::routing_thread::RoutingEvent;
use serde_json::json;

use crate::chain::Builder;
use crate::corpus::default_issuance;
use crate::io::MemIo;
use crate::node::Node;
use crate::props::Ctx;
use crate::report::Report;
use crate::rng::Rng;
use crate::world::*;

#[derive(Clone, Debug, PartialEq, Eq)]
enum Op {
    Announce(u64, usize),
    Select,
    Fetched(u64, usize),
    Failed(u64, usize),
    /// the consensus side reports the block as added (other route)
    Updated(usize),
    /// let queued verification / consensus work run (fetched blocks get added)
    Settle,
}

fn parse_op(t: &str) -> Option<Op> {
    let nums: Vec<usize> = t.split(|c: char| !c.is_ascii_digit()).filter(|x| !x.is_empty()).filter_map(|x| x.parse().ok()).collect();
    if t.starts_with("Announce") {
        Some(Op::Announce(nums[0] as u64, nums[1]))
    } else if t.starts_with("Fetched") {
        Some(Op::Fetched(nums[0] as u64, nums[1]))
    } else if t.starts_with("Failed") {
        Some(Op::Failed(nums[0] as u64, nums[1]))
    } else if t.starts_with("Updated") {
        Some(Op::Updated(nums[0]))
    } else if t == "Select" {
        Some(Op::Select)
    } else if t == "Settle" {
        Some(Op::Settle)
    } else {
        None
    }
}

fn wit(batch: usize, trace: &[String]) -> serde_json::Value {
    json!({"kind":"fetch-ops","batch": batch, "trace": trace})
}

struct Universe {
    b: Builder,
    /// candidate blocks: (hash, id, bytes); index 0.. ; the last ones are "unknown" hashes that no peer can serve
    blocks: Vec<(Hash, u64, Option<Vec<u8>>)>,
}

async fn universe(rng: &mut Rng, n_real: usize, n_fake: usize) -> Universe {
    let params = Params::with_gp(50);
    let mut b = Builder::new(&params, 4, &default_issuance(4)).await;
    let g = b.genesis;
    let tip = b.grow(rng, &g, n_real, 1, 10).await;
    let mut blocks = vec![];
    for h in b.store.ancestors(&tip).into_iter().skip(1) {
        let s = b.store.get(&h);
        blocks.push((h, s.id, Some(s.bytes.clone())));
    }
    for i in 0..n_fake {
        blocks.push((rng.hash32(), 2 + i as u64, None));
    }
    Universe { b, blocks }
}

struct Model {
    batch: usize,
    /// per peer: hashes in flight at the I/O boundary
    in_flight: BTreeMap<u64, BTreeSet<Hash>>,
    /// (peer, hash) -> number of fetch requests seen
    requests: BTreeMap<(u64, Hash), u64>,
    /// (peer, hash) -> selection rounds survived while eligible and unrequested
    waiting: BTreeMap<(u64, Hash), u64>,
    announced: BTreeSet<(u64, Hash)>,
    arrived: BTreeSet<Hash>,
    failures: BTreeMap<(u64, Hash), u64>,
}

struct Run {
    node: Node,
    u_blocks: Vec<(Hash, u64, Option<Vec<u8>>)>,
    model: Model,
    trace: Vec<String>,
    peers: Vec<u64>,
    /// set while the drain phase runs: the witness is then the trace so far followed by "Drain"
    draining: bool,
}

async fn new_run(u: &Universe, batch: usize) -> Run {
    let mut params = u.b.params.clone();
    params.batch_size = batch as u64;
    // fetched blocks reach the consensus thread in completion order; with the flag set, a block
    // whose parent is missing is re-queued instead of going down add_block's 'out-of-order' branch
    // (whose defects belong to C03/C05/C11, not to the scheduler)
    params.loading_completed = true;
    let all = actors(8);
    let mut node = Node::new(&all[5], &params, MemIo::new(), VClock::new(T0), vec![], "http://n.example:1");
    let _ = node.init().await;
    node.add_block_direct(&u.b.store.get(&u.b.genesis).bytes.clone()).await;
    let peers = vec![1u64, 2];
    for p in &peers {
        node.add_connected_peer(*p, &all[*p as usize].pk, &format!("http://peer{}.example:1", p)).await;
    }
    let _ = node.io.take_outbox();
    Run {
        node,
        u_blocks: u.blocks.clone(),
        model: Model { batch, in_flight: BTreeMap::new(), requests: BTreeMap::new(), waiting: BTreeMap::new(), announced: BTreeSet::new(), arrived: BTreeSet::new(), failures: BTreeMap::new() },
        trace: vec![],
        peers,
        draining: false,
    }
}

impl Run {
    fn witness(&self) -> serde_json::Value {
        json!({"kind":"fetch-ops","batch": self.model.batch, "trace": self.trace})
    }

    fn enabled(&self) -> Vec<Op> {
        let mut v = vec![Op::Select, Op::Settle];
        for p in &self.peers {
            for i in 0..self.u_blocks.len() {
                v.push(Op::Announce(*p, i));
            }
            if let Some(set) = self.model.in_flight.get(p) {
                for h in set {
                    let i = self.u_blocks.iter().position(|b| &b.0 == h).unwrap();
                    if self.u_blocks[i].2.is_some() {
                        v.push(Op::Fetched(*p, i));
                    }
                    v.push(Op::Failed(*p, i));
                }
            }
        }
        // a block arrives by another route: only real blocks whose parent the node holds and
        // that it does not hold yet (the harness adds it, then reports BlockchainUpdated as
        // add_blocks_from_mempool would)
        for i in 0..self.u_blocks.len() {
            if self.u_blocks[i].2.is_some() && !self.model.arrived.contains(&self.u_blocks[i].0) && (i == 0 || self.model.arrived.contains(&self.u_blocks[i - 1].0)) {
                v.push(Op::Updated(i));
            }
        }
        v
    }

    async fn apply(&mut self, op: &Op, rep: &mut Report) -> bool {
        if !self.draining {
            self.trace.push(format!("{:?}", op));
        }
        // the bounded-progress clock of a peer restarts whenever something other than a selection
        // round or queued work touches that peer's queue
        match op {
            Op::Announce(p, _) | Op::Fetched(p, _) | Op::Failed(p, _) => {
                let p = *p;
                self.model.waiting.retain(|k, _| k.0 != p);
            }
            Op::Updated(_) => self.model.waiting.clear(),
            _ => {}
        }
        let res = match op {
            Op::Announce(p, i) => {
                let (h, id, _) = self.u_blocks[*i].clone();
                self.model.announced.insert((*p, h));
                rep.count("announcements");
                self.node.net(NetworkEvent::IncomingNetworkMessage { peer_index: *p, buffer: Message::BlockHeaderHash(h, id).serialize() }).await
            }
            Op::Select => {
                rep.count("selection_rounds");
                self.node.tick(2_000).await
            }
            Op::Fetched(p, i) => {
                let (h, id, bytes) = self.u_blocks[*i].clone();
                self.model.in_flight.entry(*p).or_default().remove(&h);
                rep.count("fetch_successes");
                self.node.net(NetworkEvent::BlockFetched { block_hash: h, block_id: id, peer_index: *p, buffer: bytes.unwrap() }).await
            }
            Op::Failed(p, i) => {
                let (h, id, _) = self.u_blocks[*i].clone();
                self.model.in_flight.entry(*p).or_default().remove(&h);
                *self.model.failures.entry((*p, h)).or_insert(0) += 1;
                rep.count("fetch_failures");
                self.node.net(NetworkEvent::BlockFetchFailed { block_hash: h, peer_index: *p, block_id: id }).await
            }
            Op::Updated(i) => {
                let h = self.u_blocks[*i].0;
                rep.count("updated_events");
                let bytes = self.u_blocks[*i].2.clone().unwrap();
                let r = self.node.add_block_direct(&bytes).await;
                self.node.drain_side_channels();
                while self.node.rx_router.try_recv().is_ok() {}
                self.node.handler_calls += 1;
                if matches!(r, Some(Added::Ok(_))) {
                    // what add_blocks_from_mempool reports to the routing thread after an addition
                    crate::panics::catch_async(self.node.routing.process_event(RoutingEvent::BlockchainUpdated(h))).await.map(|_| ())
                } else {
                    rep.count("other_route_block_not_added");
                    Ok(())
                }
            }
            Op::Settle => {
                // queued inter-thread events run one at a time: each routing event is its own
                // selection round, so the requests are judged after every single handler call
                let mut out = Ok(());
                for _ in 0..50 {
                    let p = self.node.pending();
                    if p.is_empty() {
                        break;
                    }
                    match self.node.step(p[0]).await {
                        Ok(_) => {
                            if !self.observe(op, rep, false).await {
                                return false;
                            }
                        }
                        Err(e) => {
                            out = Err(e);
                            break;
                        }
                    }
                }
                out
            }
        };
        if let Err(p) = res {
            rep.violation(&format!("C16|clause=panic|{}", p.signature()), &format!("{} (batch {}, trace {:?})", p.message, self.model.batch, self.trace.iter().rev().take(12).collect::<Vec<_>>()), self.witness());
            return false;
        }
        self.observe(op, rep, matches!(op, Op::Select)).await
    }

    /// judge the fetch requests that reached the I/O boundary since the last call
    async fn observe(&mut self, op: &Op, rep: &mut Report, selection_round: bool) -> bool {
        let batch = self.model.batch;
        // which blocks does the node hold now (arrived by whatever route)?
        {
            let chain = self.node.chain.read().await;
            let mempool = self.node.mempool.read().await;
            for (h, _, _) in &self.u_blocks {
                // held in the chain, or fetched and waiting in the mempool's block queue for its parent
                if chain.blocks.contains_key(h) || mempool.blocks_queue.iter().any(|b| &b.hash == h) {
                    self.model.arrived.insert(*h);
                }
            }
        }
        // ---- the fetch requests this op produced
        let reqs = self.node.io.take_fetches();
        let _ = self.node.io.take_outbox();
        let _ = self.node.io.take_events();
        if std::env::var("SVH_DEBUG").is_ok() {
            let chain = self.node.chain.read().await;
            let mempool = self.node.mempool.read().await;
            let held: Vec<u64> = self.u_blocks.iter().filter(|b| chain.blocks.contains_key(&b.0)).map(|b| b.1).collect();
            let queued: Vec<u64> = mempool.blocks_queue.iter().map(|b| b.id).collect();
            eprintln!("{:?} -> requests {:?} | chain holds ids {:?} tip {} | mempool queue {:?}", op, reqs.iter().map(|r| (r.peer, r.block_id, hex::encode(&r.hash[..2]))).collect::<Vec<_>>(), held, chain.get_latest_block_id(), queued);
        }
        let mut last_height: BTreeMap<u64, u64> = BTreeMap::new();
        let mut requested_now: BTreeMap<u64, Vec<(u64, Hash)>> = BTreeMap::new();
        for r in &reqs {
            rep.count("fetch_requests");
            let set = self.model.in_flight.entry(r.peer).or_default();
            // no hash in flight twice for one peer
            if !set.insert(r.hash) {
                rep.violation(
                    "C16|clause=same-block-in-flight-twice",
                    &format!("block {} requested from peer {} while a request for it is still in flight (batch {}, trace {:?})", r.block_id, r.peer, self.model.batch, self.trace.iter().rev().take(12).collect::<Vec<_>>()),
                    wit(batch, &self.trace),
                );
                return false;
            }
            // bounded in-flight. A fetch still outstanding for a block that meanwhile arrived by
            // another route keeps loading the peer although the scheduler has freed its slot: that
            // cause is told apart from any other way of exceeding the bound.
            if set.len() > self.model.batch {
                let stale = set.iter().filter(|h| self.model.arrived.contains(*h)).count();
                if set.len() - stale <= self.model.batch {
                    rep.count("in_flight_bound_exceeded_by_stale_fetches");
                    rep.violation(
                        "C16|clause=in-flight-exceeds-batch-size|cause=slot-freed-while-fetch-outstanding",
                        &format!("{} fetches in flight for peer {} with batch size {}: {} of them are for blocks that arrived by another route while the fetch was outstanding (latest op first: {:?})", set.len(), r.peer, self.model.batch, stale, self.trace.iter().rev().take(14).collect::<Vec<_>>()),
                        wit(batch, &self.trace),
                    );
                } else {
                    let desc: Vec<String> = set.iter().map(|h| { let b = self.u_blocks.iter().find(|b| &b.0 == h).unwrap(); format!("id{}{}{}", b.1, if b.2.is_none() {"(unserved)"} else {""}, if self.model.arrived.contains(h) {"(arrived)"} else {""}) }).collect();
                    rep.note(&format!("in flight for peer {}: {:?}; requests now: {:?}", r.peer, desc, reqs.iter().map(|x| (x.peer, x.block_id)).collect::<Vec<_>>()));
                    rep.violation(
                        "C16|clause=in-flight-exceeds-batch-size",
                        &format!("{} fetches in flight for peer {} with batch size {} (latest op first: {:?})", set.len(), r.peer, self.model.batch, self.trace.iter().rev().take(14).collect::<Vec<_>>()),
                        wit(batch, &self.trace),
                    );
                    return false;
                }
            }
            rep.max("in_flight_per_peer", set.len() as u64);
            // non-decreasing height within this round
            let lh = last_height.entry(r.peer).or_insert(0);
            if r.block_id < *lh {
                rep.violation(
                    "C16|clause=heights-not-ascending-in-round",
                    &format!("peer {}: block {} requested after block {} in one selection round (latest op first: {:?})", r.peer, r.block_id, lh, self.trace.iter().rev().take(12).collect::<Vec<_>>()),
                    wit(batch, &self.trace),
                );
                return false;
            }
            *lh = r.block_id;
            requested_now.entry(r.peer).or_default().push((r.block_id, r.hash));
            let n = self.model.requests.entry((r.peer, r.hash)).or_insert(0);
            *n += 1;
            rep.max("requests_per_peer_and_block", *n);
            // bounded retries: 1 initial request + at most 500 retries
            if *n > 501 {
                rep.violation(
                    "C16|clause=unbounded-retries",
                    &format!("block {} requested {} times from peer {} after {} failures", r.block_id, n, r.peer, self.model.failures.get(&(r.peer, r.hash)).unwrap_or(&0)),
                    wit(batch, &self.trace),
                );
                return false;
            }
            self.model.waiting.remove(&(r.peer, r.hash));
        }
        // no eligible lower block passed over for a higher one (per peer, this round)
        for (p, list) in requested_now.iter() {
            let max_h = list.iter().map(|x| x.0).max().unwrap_or(0);
            for (pp, h) in self.model.announced.iter() {
                if pp != p || self.model.arrived.contains(h) {
                    continue;
                }
                let (_, id, _) = self.u_blocks.iter().find(|b| &b.0 == h).unwrap();
                let never_requested = !self.model.requests.contains_key(&(*p, *h));
                let waited = self.model.waiting.get(&(*p, *h)).cloned().unwrap_or(0);
                if never_requested && *id < max_h && waited >= 1 {
                    rep.violation(
                        "C16|clause=lower-block-passed-over",
                        &format!("peer {}: block {} (announced {} rounds ago, never requested) passed over for block {} (latest op first: {:?})", p, id, waited, max_h, self.trace.iter().rev().take(12).collect::<Vec<_>>()),
                        wit(batch, &self.trace),
                    );
                    return false;
                }
            }
        }
        // completeness (bounded): an announced, missing, never requested block whose peer has a free
        // slot must be requested within 3 selection rounds
        if selection_round {
            let peers = self.peers.clone();
            for p in peers {
                let free = self.model.in_flight.get(&p).map(|s| s.len()).unwrap_or(0) < self.model.batch;
                let keys: Vec<(u64, Hash)> = self.model.announced.iter().filter(|(pp, _)| *pp == p).cloned().collect();
                for k in keys {
                    if self.model.arrived.contains(&k.1) || self.model.requests.contains_key(&k) {
                        self.model.waiting.remove(&k);
                        continue;
                    }
                    // blocks of lower height that are announced, missing, not in flight and not
                    // given up legitimately go first (retries included)
                    let my_id = self.u_blocks.iter().find(|b| b.0 == k.1).unwrap().1;
                    let blocked = self.model.announced.iter().any(|(pp, h)| {
                        *pp == p
                            && *h != k.1
                            && !self.model.arrived.contains(h)
                            && !self.model.in_flight.get(&p).map(|s| s.contains(h)).unwrap_or(false)
                            && self.model.requests.get(&(p, *h)).cloned().unwrap_or(0) < 501
                            && self.u_blocks.iter().find(|b| &b.0 == h).unwrap().1 <= my_id
                            && self.model.requests.contains_key(&(p, *h))
                    });
                    let lower = self.model.announced.iter().filter(|(pp, h)| *pp == p && *h != k.1 && self.u_blocks.iter().find(|b| &b.0 == h).unwrap().1 <= my_id).count() as u64
                        + self.model.requests.keys().filter(|(pp, h)| *pp == p && !self.model.announced.contains(&(*pp, *h)) && self.u_blocks.iter().find(|b| &b.0 == h).unwrap().1 <= my_id).count() as u64;
                    if free && !blocked {
                        let w = self.model.waiting.entry(k).or_insert(0);
                        *w += 1;
                        rep.max("rounds_waited", *w);
                        // every entry of lower or equal height that the peer's queue may still
                        // hold (failed, or for a block that meanwhile arrived) costs at most two
                        // quiet rounds: Failed -> Queued, Queued -> requested or dropped
                        if *w > 3 + 2 * lower {
                            let id = self.u_blocks.iter().find(|b| b.0 == k.1).unwrap().1;
                            rep.violation(
                                "C16|clause=announced-block-never-requested",
                                &format!("peer {}: block {} announced, still missing, peer has a free slot, yet not requested after {} selection rounds (latest op first: {:?})", p, id, w, self.trace.iter().rev().take(14).collect::<Vec<_>>()),
                                wit(batch, &self.trace),
                            );
                            return false;
                        }
                    }
                }
            }
        }
        true
    }
}

impl Run {
    /// Bounded "eventually": the adversary stops; every selection round is followed by the
    /// completion of everything in flight (real blocks are served, unserved hashes fail) and by
    /// the queued work. Within the bound every announced block a peer can serve must have reached
    /// the node (chain or mempool queue).
    async fn drain(&mut self, rep: &mut Report) -> bool {
        let fakes = self.model.announced.iter().filter(|(_, h)| self.u_blocks.iter().find(|b| &b.0 == h).unwrap().2.is_none()).count() as u64
            + self.model.requests.keys().filter(|k| !self.model.announced.contains(*k) && self.u_blocks.iter().find(|b| b.0 == k.1).unwrap().2.is_none()).count() as u64;
        let bound = 2 * (501 * fakes + self.model.announced.len() as u64 + self.u_blocks.len() as u64) + 20;
        let mut quiet = 0;
        let mut rounds = 0;
        self.trace.push("Drain".to_string());
        self.draining = true;
        while rounds < bound {
            rounds += 1;
            let before: u64 = self.model.requests.values().sum();
            if !self.apply(&Op::Select, rep).await {
                return false;
            }
            let flying: Vec<(u64, Hash)> = self.model.in_flight.iter().flat_map(|(p, s)| s.iter().map(move |h| (*p, *h))).collect();
            for (p, h) in flying {
                let i = self.u_blocks.iter().position(|b| b.0 == h).unwrap();
                let op = if self.u_blocks[i].2.is_some() { Op::Fetched(p, i) } else { Op::Failed(p, i) };
                if !self.apply(&op, rep).await {
                    return false;
                }
            }
            if !self.apply(&Op::Settle, rep).await {
                return false;
            }
            let after: u64 = self.model.requests.values().sum();
            quiet = if after == before { quiet + 1 } else { 0 };
            let missing = self.model.announced.iter().any(|(_, h)| !self.model.arrived.contains(h) && self.u_blocks.iter().find(|b| &b.0 == h).unwrap().2.is_some());
            if !missing && quiet >= 4 {
                break;
            }
        }
        self.draining = false;
        rep.max("drain_rounds", rounds);
        rep.count("drain_phases");
        let batch = self.model.batch;
        for (p, h) in self.model.announced.clone() {
            let b = self.u_blocks.iter().find(|b| b.0 == h).unwrap().clone();
            if b.2.is_some() {
                rep.count("drain_announced_served_blocks");
                if !self.model.arrived.contains(&h) {
                    rep.violation(
                        "C16|clause=announced-block-never-requested|phase=drain",
                        &format!("peer {}: block {} was announced and can be served, every fetch was answered, yet after {} quiet selection rounds (bound {}) the node neither holds nor requests it", p, b.1, rounds, bound),
                        wit(batch, &self.trace),
                    );
                    return false;
                }
            } else {
                let n = self.model.requests.get(&(p, h)).cloned().unwrap_or(0);
                rep.max("drain_requests_of_unserved_block", n);
            }
        }
        true
    }
}

async fn exhaustive(u: &Universe, batch: usize, depth: usize, ctx: &Ctx, rep: &mut Report, budget: &mut u64) {
    // iterative deepening by re-execution of op-index sequences
    // breadth first, so that under a budget every shorter sequence is covered before longer ones
    let mut stack: std::collections::VecDeque<Vec<usize>> = std::collections::VecDeque::from(vec![vec![]]);
    let mut first_level = true;
    while let Some(prefix) = stack.pop_front() {
        if *budget == 0 {
            return;
        }
        let mut run = new_run(u, batch).await;
        let mut ok = true;
        for c in &prefix {
            let ops = run.enabled();
            if *c >= ops.len() {
                ok = false;
                break;
            }
            if !run.apply(&ops[*c], rep).await {
                ok = false;
                break;
            }
        }
        if !ok {
            continue;
        }
        *budget -= 1;
        rep.eval();
        rep.count("runs.exhaustive");
        rep.count(&format!("runs.exhaustive.depth{}", prefix.len()));
        rep.nontrivial(&format!("ex|{}|{:?}", batch, prefix));
        if prefix.len() >= depth {
            continue;
        }
        let n = run.enabled().len();
        for c in 0..n {
            if first_level && !ctx.mine(c as u64) {
                continue;
            }
            let mut next = prefix.clone();
            next.push(c);
            stack.push_back(next);
        }
        first_level = false;
    }
}

pub async fn run(ctx: &Ctx, rep: &mut Report) {
    let mut rng = ctx.rng();
    let mut urng = Rng::new(ctx.seed ^ 0x16);
    let u = universe(&mut urng, 3, 1).await;
    if let Some(path) = &ctx.replay {
        let big = universe(&mut urng, 12, 3).await;
        let text = std::fs::read_to_string(path).expect("replay file");
        let v: serde_json::Value = serde_json::from_str(&text).expect("replay json");
        let r = &v["replay"];
        let ops: Vec<Op> = r["trace"].as_array().map(|a| a.iter().filter_map(|x| parse_op(x.as_str().unwrap_or(""))).collect()).unwrap_or_default();
        let drains = r["trace"].as_array().map(|a| a.iter().any(|x| x.as_str() == Some("Drain"))).unwrap_or(false);
        let uses_big = ops.iter().any(|o| match o {
            Op::Announce(_, i) | Op::Fetched(_, i) | Op::Failed(_, i) | Op::Updated(i) => *i >= u.blocks.len(),
            _ => false,
        });
        let mut run = new_run(if uses_big { &big } else { &u }, r["batch"].as_u64().unwrap_or(1) as usize).await;
        rep.eval();
        for op in &ops {
            if !run.apply(op, rep).await {
                return;
            }
        }
        if drains && !run.drain(rep).await {
            return;
        }
        rep.note("replay: no clause fired");
        return;
    }
    // ---- bounded exhaustive over a small universe (2 peers, 3 real + 1 unserved hash)
    rep.exhaustive = true;
    for batch in [1usize, 2] {
        let mut budget = ctx.scale(80_000, 3_000_000) / ctx.shards.max(1);
        exhaustive(&u, batch, ctx.scale(4, 6) as usize, ctx, rep, &mut budget).await;
    }
    // ---- random long runs over a larger universe
    let big = universe(&mut urng, 12, 3).await;
    let runs = ctx.scale(400, 8000) / ctx.shards.max(1) + 1;
    for r in 0..runs {
        let batch = [1usize, 2, 10][(r % 3) as usize];
        let mut run = new_run(&big, batch).await;
        rep.eval();
        rep.count("runs.random");
        for _ in 0..ctx.scale(250, 400) {
            let ops = run.enabled();
            // weight completions and selections up so that the queues move
            let pick = match rng.below(10) {
                0..=2 => ops.iter().filter(|o| matches!(o, Op::Fetched(..) | Op::Failed(..))).cloned().collect::<Vec<_>>(),
                3..=4 => vec![Op::Select],
                5 => vec![Op::Settle],
                _ => ops.clone(),
            };
            let pick = if pick.is_empty() { ops } else { pick };
            let op = rng.pick(&pick).clone();
            if !run.apply(&op, rep).await {
                return;
            }
        }
        let head: Vec<String> = run.trace.iter().take(40).cloned().collect();
        if !run.drain(rep).await {
            return;
        }
        run.trace = head;
        rep.nontrivial(&format!("rand|{}|{:?}", batch, run.trace.iter().take(30).collect::<Vec<_>>()));
        if rep.samples.len() < 2 {
            rep.sample(json!({"batch": batch, "ops": run.trace.iter().take(40).collect::<Vec<_>>()}));
        }
    }
    // ---- a block that keeps failing is retried a bounded number of times
    if ctx.mine(0) {
        let mut run = new_run(&u, 1).await;
        let fake = u.blocks.len() - 1;
        rep.count("runs.retry-bound");
        if !run.apply(&Op::Announce(1, fake), rep).await {
            return;
        }
        for _ in 0..1150 {
            if !run.apply(&Op::Select, rep).await {
                return;
            }
            let inflight = run.model.in_flight.get(&1).map(|s| !s.is_empty()).unwrap_or(false);
            if inflight {
                if !run.apply(&Op::Failed(1, fake), rep).await {
                    return;
                }
            }
            // keep the trace short
            if run.trace.len() > 60 {
                run.trace.drain(0..40);
            }
        }
        let n = run.model.requests.get(&(1, u.blocks[fake].0)).cloned().unwrap_or(0);
        rep.max("retry_bound_requests_observed", n);
        rep.eval();
    }
}
