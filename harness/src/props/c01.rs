//! C01 — only authorised, existing, unspent, in-window outputs are ever spent; invalid
//! transactions are refused by the pool gate, the verification gate and block validation.
use std::sync::Arc;

use saito_core::core::consensus::block::Block;
use saito_core::core::consensus::mempool::Mempool;
use saito_core::core::consensus::slip::SlipType;
use saito_core::core::consensus::transaction::{Transaction, TransactionType};
use saito_core::core::consensus_thread::ConsensusEvent;
use saito_core::core::defs::{StatVariable, STAT_BIN_COUNT};
use saito_core::core::util::crypto::verify_signature;
use saito_core::core::verification_thread::VerificationThread;
use serde_json::json;

use crate::chain::{BlockSpec, Builder, RefLedger, TYPE_BOUND};
use crate::corpus::default_issuance;
use crate::monitors::check_spends;
use crate::props::Ctx;
use crate::report::Report;
use crate::rng::Rng;
use crate::world::*;

pub struct Artefact {
    pub edit: &'static str,
    pub tx: Transaction,
    /// submitted by a user (true) or only meaningful inside a block (false)
    pub pool_gates: bool,
}

/// independent judgement: is this transaction invalid by the property's own terms?
pub fn ref_invalid(tx: &Transaction, ledger: &RefLedger, gp: u64, next_block_id: u64) -> Option<&'static str> {
    match tx.transaction_type {
        TransactionType::Fee | TransactionType::ATR | TransactionType::Issuance | TransactionType::SPV => {
            return Some("privileged-type");
        }
        _ => {}
    }
    let mut t = tx.clone();
    t.generate_hash_for_signature();
    let h = t.hash_for_signature.unwrap();
    let mut seen = std::collections::BTreeSet::new();
    let mut total_in: u128 = 0;
    let mut any_value = false;
    for input in &tx.from {
        if input.amount == 0 || input.slip_type as u8 == TYPE_BOUND {
            continue;
        }
        any_value = true;
        total_in += input.amount as u128;
        let k = ref_key(&input.public_key, input.block_id, input.tx_ordinal, input.slip_index, input.amount, input.slip_type as u8);
        if !seen.insert(k) {
            return Some("duplicate-input");
        }
        match ledger.utxo.get(&k) {
            None => return Some("nonexistent-or-spent"),
            Some(o) => {
                if o.block_id < next_block_id.saturating_sub(gp) {
                    return Some("expired");
                }
            }
        }
        if !verify_signature(&h, &tx.signature, &input.public_key) {
            return Some("unauthorised");
        }
    }
    let total_out: u128 = tx.to.iter().filter(|s| s.slip_type as u8 != TYPE_BOUND).map(|s| s.amount as u128).sum();
    if total_out > total_in {
        return Some("outputs-exceed-inputs");
    }
    if !any_value && tx.from.is_empty() {
        return Some("no-inputs");
    }
    if !any_value {
        // zero-value transaction: must still be signed by from[0]
        if !verify_signature(&h, &tx.signature, &tx.from[0].public_key) {
            return Some("unauthorised");
        }
    }
    None
}

pub struct Env {
    pub b: Builder,
    pub tip: Hash,
    pub label: &'static str,
    /// outputs spent earlier on the chain of `tip`
    pub spent: Vec<OutRef>,
    /// key written on the tracking slip of an NFT group held by the attacker (zero-amount slips
    /// are not in the reference ledger)
    pub nft_uuid: Option<PK>,
}

pub fn spent_on_chain(b: &mut Builder, tip: &Hash) -> Vec<OutRef> {
    let mut spent = vec![];
    let anc = b.store.ancestors(tip);
    for w in anc.windows(2) {
        let before = b.store.ledger(&w[0]);
        let after = b.store.ledger(&w[1]);
        for (k, o) in before.utxo.iter() {
            if !after.utxo.contains_key(k) {
                spent.push(o.clone());
            }
        }
    }
    spent
}

/// the catalogue of adversarial edits, instantiated on the ledger at `tip`
pub fn catalogue(env: &mut Env, rng: &mut Rng) -> Vec<Artefact> {
    let gp = env.b.params.gp;
    let ledger = env.b.store.ledger(&env.tip);
    let ts = env.b.store.get(&env.tip).ts + 50;
    let victim = env.b.actors[1].clone();
    let attacker = env.b.actors[2].clone();
    let v_outs = ledger.safe_owned_by(&victim.pk, gp);
    let a_outs = ledger.safe_owned_by(&attacker.pk, gp);
    let mut out = vec![];
    if v_outs.is_empty() || a_outs.is_empty() {
        return out;
    }
    let vo = v_outs[rng.below(v_outs.len() as u64) as usize].clone();
    let ao = a_outs[rng.below(a_outs.len() as u64) as usize].clone();
    let pay = |o: &OutRef, signer: &Actor, to: &PK| build_tx(signer, &[o.clone()], &[(*to, o.amount.saturating_sub(10))], ts, &[]);

    // forged signature (one bit), zeroed signature, signed by another key
    let mut tx = pay(&vo, &victim, &attacker.pk);
    tx.signature[rng.below(64) as usize] ^= 1 << rng.below(8);
    out.push(Artefact { edit: "forged-signature", tx, pool_gates: true });
    let mut tx = pay(&vo, &victim, &attacker.pk);
    tx.signature = [0; 64];
    out.push(Artefact { edit: "zero-signature", tx, pool_gates: true });
    let tx = pay(&vo, &attacker, &attacker.pk); // victim's output, attacker's signature
    out.push(Artefact { edit: "signed-by-other-key", tx, pool_gates: true });

    // foreign-owned extra input: from[0] attacker's own, from[1] victim's, signed by attacker
    let tx = build_tx(&attacker, &[ao.clone(), vo.clone()], &[(attacker.pk, (ao.amount + vo.amount).saturating_sub(10))], ts, &[]);
    out.push(Artefact { edit: "foreign-extra-input", tx, pool_gates: true });

    // non-existent inputs: mutate one coordinate of a real output of the attacker
    for (name, f) in [
        ("nonexistent-amount", 0u8),
        ("nonexistent-block-id", 1),
        ("nonexistent-ordinal", 2),
        ("nonexistent-slip-index", 3),
    ] {
        let mut o = ao.clone();
        match f {
            0 => o.amount += 1_000_000,
            1 => o.block_id += 1,
            2 => o.tx_ordinal += 7,
            _ => o.slip_index = o.slip_index.wrapping_add(9),
        }
        let tx = build_tx(&attacker, &[o.clone()], &[(attacker.pk, o.amount.saturating_sub(10))], ts, &[]);
        out.push(Artefact { edit: name, tx, pool_gates: true });
    }
    // an output that never existed at all
    let ghost = OutRef { owner: attacker.pk, amount: 5_000_000, block_id: 1, tx_ordinal: 99, slip_index: 0, slip_type: 0 };
    out.push(Artefact { edit: "nonexistent-invented", tx: build_tx(&attacker, &[ghost.clone()], &[(attacker.pk, ghost.amount - 1)], ts, &[]), pool_gates: true });

    // already spent on this chain
    if let Some(s) = env.spent.iter().find(|o| o.owner == attacker.pk).or(env.spent.first()) {
        let signer = env.b.actors.iter().find(|a| a.pk == s.owner).cloned().unwrap_or(attacker.clone());
        let tx = build_tx(&signer, &[s.clone()], &[(attacker.pk, s.amount.saturating_sub(10))], ts, &[]);
        out.push(Artefact { edit: "already-spent-input", tx, pool_gates: true });
    }
    // expired: unspent in the reference ledger but created before the window
    let next_id = ledger.tip_id + 1;
    if let Some(e) = ledger.utxo.values().find(|o| o.block_id < next_id.saturating_sub(gp) && o.slip_type != TYPE_BOUND && env.b.actors.iter().any(|a| a.pk == o.owner)) {
        let signer = env.b.actors.iter().find(|a| a.pk == e.owner).cloned().unwrap();
        let tx = build_tx(&signer, &[e.clone()], &[(signer.pk, e.amount.saturating_sub(1))], ts, &[]);
        out.push(Artefact { edit: "expired-input", tx, pool_gates: true });
    }
    // expired by exactly one block: created in block tip - gp, the block whose outputs the next
    // block's rebroadcast section collects
    if next_id > gp + 1 {
        let edge = next_id - gp - 1;
        if let Some(e) = ledger.utxo.values().find(|o| o.block_id == edge && o.slip_type != TYPE_BOUND && o.amount > 0 && env.b.actors.iter().any(|a| a.pk == o.owner)) {
            let signer = env.b.actors.iter().find(|a| a.pk == e.owner).cloned().unwrap();
            let tx = build_tx(&signer, &[e.clone()], &[(signer.pk, e.amount.saturating_sub(1))], ts, &[]);
            out.push(Artefact { edit: "expired-input-by-one-block", tx, pool_gates: true });
        }
    }
    // an NFT group [Bound, Normal, Bound] held by the attacker: the send moves the group on and adds
    // a Normal output worth the free-form (unbacked) amount written on the first bound slip
    {
        let all: Vec<OutRef> = ledger.utxo.values().cloned().collect();
        for o2 in all.iter().filter(|o| o.owner == attacker.pk && o.slip_type == 0 && o.slip_index >= 1) {
            let find = |idx: u8| all.iter().find(|x| x.block_id == o2.block_id && x.tx_ordinal == o2.tx_ordinal && x.slip_index == idx && x.slip_type == TYPE_BOUND);
            let s3 = env.nft_uuid.map(|uuid| OutRef { owner: uuid, amount: 0, block_id: o2.block_id, tx_ordinal: o2.tx_ordinal, slip_index: o2.slip_index + 1, slip_type: TYPE_BOUND });
            if let (Some(s1), Some(s3)) = (find(o2.slip_index - 1), s3.as_ref()) {
                if s1.amount > 1 {
                    use saito_core::core::consensus::slip::SlipType;
                    let mut tx = Transaction::default();
                    tx.transaction_type = TransactionType::Bound;
                    tx.timestamp = ts;
                    for i in [s1, o2, s3] {
                        tx.add_from_slip(i.to_input());
                    }
                    let mut t1 = out_slip(&s1.owner, s1.amount);
                    t1.slip_type = SlipType::Bound;
                    let t2 = out_slip(&attacker.pk, o2.amount.saturating_sub(5));
                    let mut t3 = out_slip(&s3.owner, 0);
                    t3.slip_type = SlipType::Bound;
                    tx.add_to_slip(t1);
                    tx.add_to_slip(t2);
                    tx.add_to_slip(t3);
                    tx.add_to_slip(out_slip(&attacker.pk, s1.amount));
                    tx.sign(&attacker.sk);
                    out.push(Artefact { edit: "nft-send-pays-out-bound-slip-amount", tx, pool_gates: true });
                    break;
                }
            }
        }
    }
    // the same input twice inside one transaction (doubles the apparent input value)
    let tx = build_tx(&attacker, &[ao.clone(), ao.clone()], &[(attacker.pk, (ao.amount * 2).saturating_sub(10))], ts, &[]);
    out.push(Artefact { edit: "duplicate-input-in-tx", tx, pool_gates: true });

    // outputs exceed inputs, plainly and through 64-bit wrap-around of the output sum
    let tx = build_tx(&attacker, &[ao.clone()], &[(attacker.pk, ao.amount + 1)], ts, &[]);
    out.push(Artefact { edit: "outputs-exceed-inputs", tx, pool_gates: true });
    let tx = build_tx(&attacker, &[ao.clone()], &[(attacker.pk, u64::MAX), (attacker.pk, (ao.amount + 1).saturating_sub(1000).max(1))], ts, &[]);
    out.push(Artefact { edit: "outputs-wrap-u64", tx, pool_gates: true });

    // privileged types used to bypass checks
    {
        // BlockStake: spends the victim's output without the victim's signature
        let mut tx = build_tx(&attacker, &[vo.clone()], &[(attacker.pk, vo.amount)], ts, &[]);
        tx.transaction_type = TransactionType::BlockStake;
        tx.sign(&attacker.sk);
        out.push(Artefact { edit: "blockstake-type-foreign-input", tx, pool_gates: true });
        // ATR: forged rebroadcast of the victim's output to the attacker
        let mut tx = build_tx(&attacker, &[vo.clone()], &[(attacker.pk, vo.amount)], ts, &[]);
        tx.transaction_type = TransactionType::ATR;
        tx.to[0].slip_type = SlipType::ATR;
        tx.data = pay(&vo, &victim, &victim.pk).serialize_for_net();
        tx.sign(&attacker.sk);
        out.push(Artefact { edit: "atr-type-forged", tx, pool_gates: true });
        // the same with an ordinary output slip (what the block's rebroadcast commitment sees of
        // a rebroadcast transaction must not depend on the types of its output slips)
        let mut tx = build_tx(&attacker, &[vo.clone()], &[(attacker.pk, vo.amount)], ts, &[]);
        tx.transaction_type = TransactionType::ATR;
        tx.data = pay(&vo, &victim, &victim.pk).serialize_for_net();
        tx.sign(&attacker.sk);
        out.push(Artefact { edit: "atr-type-forged-normal-output", tx, pool_gates: true });
        // Issuance after block 1
        let mut tx = Transaction::create_issuance_transaction(attacker.pk, 77_000_000);
        tx.timestamp = ts;
        tx.sign(&attacker.sk);
        out.push(Artefact { edit: "issuance-type-late", tx, pool_gates: true });
        // Fee transaction paying the attacker (block without the matching golden ticket)
        let mut tx = Transaction::default();
        tx.transaction_type = TransactionType::Fee;
        tx.timestamp = ts;
        let mut s = out_slip(&attacker.pk, 66_000_000);
        s.slip_type = SlipType::MinerOutput;
        tx.add_to_slip(s);
        tx.sign(&attacker.sk);
        out.push(Artefact { edit: "fee-type-forged", tx, pool_gates: true });
        // SPV placeholder carrying outputs
        let mut tx = Transaction::default();
        tx.transaction_type = TransactionType::SPV;
        tx.timestamp = ts;
        tx.add_to_slip(out_slip(&attacker.pk, 55_000_000));
        tx.sign(&attacker.sk);
        out.push(Artefact { edit: "spv-type-with-outputs", tx, pool_gates: true });
        // Bound type without a matching triple (one normal input, three outputs, forged uuid)
        let mut tx = build_tx(&attacker, &[vo.clone()], &[(attacker.pk, 1), (attacker.pk, vo.amount.saturating_sub(10)), (attacker.pk, 0)], ts, &[]);
        tx.transaction_type = TransactionType::Bound;
        tx.to[0].slip_type = SlipType::Bound;
        tx.to[2].slip_type = SlipType::Bound;
        tx.sign(&attacker.sk);
        out.push(Artefact { edit: "bound-type-foreign-input", tx, pool_gates: true });
        // golden-ticket typed transaction spending the victim's output
        let mut tx = build_tx(&attacker, &[vo.clone()], &[(attacker.pk, vo.amount.saturating_sub(10))], ts, &[]);
        tx.transaction_type = TransactionType::GoldenTicket;
        tx.data = vec![0u8; 97];
        tx.sign(&attacker.sk);
        out.push(Artefact { edit: "goldenticket-type-foreign-input", tx, pool_gates: false });
        // Vip typed transaction spending the victim's output
        let mut tx = build_tx(&attacker, &[vo.clone()], &[(attacker.pk, vo.amount.saturating_sub(10))], ts, &[]);
        tx.transaction_type = TransactionType::Vip;
        tx.sign(&attacker.sk);
        out.push(Artefact { edit: "vip-type-foreign-input", tx, pool_gates: true });
    }
    out
}

fn verification_thread(node: &LNode) -> (VerificationThread, tokio::sync::mpsc::Receiver<ConsensusEvent>) {
    let (tx, rx) = tokio::sync::mpsc::channel(16);
    let (stat_tx, _stat_rx) = tokio::sync::mpsc::channel(1000);
    let peers = Arc::new(RwLock::new(saito_core::core::consensus::peers::peer_collection::PeerCollection::default()));
    let sv = |n: &str| StatVariable::new(n.to_string(), STAT_BIN_COUNT, stat_tx.clone());
    (
        VerificationThread {
            sender_to_consensus: tx,
            blockchain_lock: node.chain.clone(),
            peer_lock: peers,
            wallet_lock: node.wallet.clone(),
            processed_txs: sv("a"),
            processed_blocks: sv("b"),
            processed_msgs: sv("c"),
            invalid_txs: sv("d"),
            stat_sender: stat_tx.clone(),
        },
        rx,
    )
}

fn tx_json(tx: &Transaction) -> serde_json::Value {
    json!({"tx_hex": hex::encode(tx.serialize_for_net())})
}

/// refill the header of `block` from freshly generated consensus values, exactly as
/// `Block::create` does, then re-seal. Used for blocks that `Block::create` refuses to build.
pub async fn rebuild_header(node: &LNode, block: &mut Block) {
    let cfg = node.cfg.read().await;
    let chain = node.chain.read().await;
    for (i, tx) in block.transactions.iter_mut().enumerate() {
        tx.generate(&node.key.pk, i as u64, block.id);
    }
    let cv = block.generate_consensus_values(&chain, &node.storage, &*cfg).await;
    let prev = chain.blocks.get(&block.previous_block_hash);
    block.total_fees_new = cv.total_fees_new;
    block.total_fees_atr = cv.total_fees_atr;
    block.total_fees_cumulative = cv.total_fees_cumulative;
    block.total_fees = cv.total_fees_new + cv.total_fees_atr;
    block.avg_total_fees = cv.avg_total_fees;
    block.avg_total_fees_new = cv.avg_total_fees_new;
    block.avg_total_fees_atr = cv.avg_total_fees_atr;
    block.total_payout_routing = cv.total_payout_routing;
    block.total_payout_mining = cv.total_payout_mining;
    block.total_payout_treasury = cv.total_payout_treasury;
    block.total_payout_graveyard = cv.total_payout_graveyard;
    block.total_payout_atr = cv.total_payout_atr;
    block.avg_payout_routing = cv.avg_payout_routing;
    block.avg_payout_mining = cv.avg_payout_mining;
    block.avg_payout_treasury = cv.avg_payout_treasury;
    block.avg_payout_graveyard = cv.avg_payout_graveyard;
    block.avg_payout_atr = cv.avg_payout_atr;
    block.avg_fee_per_byte = cv.avg_fee_per_byte;
    block.fee_per_byte = cv.fee_per_byte;
    block.avg_nolan_rebroadcast_per_block = cv.avg_nolan_rebroadcast_per_block;
    block.burnfee = cv.burnfee;
    block.difficulty = cv.difficulty;
    if let Some(p) = prev {
        block.treasury = p.treasury + cv.total_payout_treasury - cv.total_payout_atr;
        block.graveyard = p.graveyard + cv.total_payout_graveyard;
    }
    block.merkle_root = [0; 32];
    block.merkle_root = block.generate_merkle_root(false, false);
    block.generate_pre_hash();
    block.sign(&node.key.sk);
    block.slips_spent_this_block.clear();
    block.created_hashmap_of_slips_spent_this_block = false;
}

async fn judge_env(env: &mut Env, rng: &mut Rng, rep: &mut Report, build: &str) {
    let arts = catalogue(env, rng);
    let gp = env.b.params.gp;
    let ledger = env.b.store.ledger(&env.tip);
    let next_id = ledger.tip_id + 1;
    // the node under test: an independent replica (victim's wallet) on the same chain
    let victim = env.b.actors[1].clone();
    let mut sut = env.b.fresh_replica(&env.tip, &victim).await;
    assert_eq!(sut.tip().await.1, env.tip, "replica must be on the tip");
    let tip_ts = env.b.store.get(&env.tip).ts;
    for art in arts {
        let why = match ref_invalid(&art.tx, &ledger, gp, next_id) {
            Some(w) => w,
            None => {
                rep.count(&format!("edit_not_invalid.{}", art.edit));
                continue;
            }
        };
        rep.count(&format!("edits.{}", art.edit));
        let shape = format!("{}|{}|{}", env.label, art.edit, why);
        // ---- pool gate
        if art.pool_gates {
            rep.eval();
            rep.nontrivial(&format!("{}|pool", shape));
            let mut pool = Mempool::new(sut.wallet.clone());
            let r = {
                let chain = sut.chain.read().await;
                crate::panics::catch_async(pool.add_transaction_if_validates(art.tx.clone(), &chain)).await
            };
            match r {
                Err(p) => {
                    // arithmetic overflow in the checked build is the C02/C11 face of the same input
                    rep.count(&format!("gate_panics.pool.{}", art.edit));
                    rep.violation(
                        &format!("C01|edit={}|gate=pool|panic|{}", art.edit, p.signature()),
                        &format!("[{} {}] pool gate panicked on a {} transaction: {}", env.label, build, art.edit, p.message),
                        tx_json(&art.tx),
                    );
                }
                Ok(()) => {
                    if pool.transactions.contains_key(&art.tx.signature) {
                        rep.violation(
                            &format!("C01|edit={}|gate=pool", art.edit),
                            &format!("[{}] a {} transaction ({}) was admitted to the transaction pool", env.label, art.edit, why),
                            tx_json(&art.tx),
                        );
                    } else {
                        rep.count("refused.pool");
                    }
                }
            }
            // ---- verification gate
            rep.eval();
            rep.nontrivial(&format!("{}|verify", shape));
            let (mut vt, mut rx) = verification_thread(&sut);
            let r = crate::panics::catch_async(vt.verify_tx(art.tx.clone())).await;
            match r {
                Err(p) => {
                    rep.violation(
                        &format!("C01|edit={}|gate=verify|panic|{}", art.edit, p.signature()),
                        &format!("[{} {}] verification gate panicked on a {} transaction: {}", env.label, build, art.edit, p.message),
                        tx_json(&art.tx),
                    );
                }
                Ok(()) => {
                    if rx.try_recv().is_ok() {
                        rep.violation(
                            &format!("C01|edit={}|gate=verify", art.edit),
                            &format!("[{}] a {} transaction ({}) was forwarded by the verification thread", env.label, art.edit, why),
                            tx_json(&art.tx),
                        );
                    } else {
                        rep.count("refused.verify");
                    }
                }
            }
        }
        // ---- block gate: the producer builds a consistent block around the transaction
        rep.eval();
        rep.nontrivial(&format!("{}|block", shape));
        let producer = env.b.producer_at(&env.tip).await;
        let mut exclude = vec![];
        let mut txs = vec![art.tx.clone()];
        if let Some(t) = env.b.payment(rng, &env.tip, 3, 0, 50, 5, &mut exclude) {
            txs.push(t);
        }
        let with_gt = next_id % 2 == 0;
        let gt = if with_gt {
            let ticket = mine_gt(rng, env.tip, env.b.store.get(&env.tip).block.difficulty, &env.b.actors[0].pk);
            Some(gt_tx(&ticket, &env.b.actors[0]))
        } else {
            None
        };
        let built = crate::panics::catch_async(producer.create_block(env.tip, tip_ts + 2 * env.b.params.heartbeat, txs, gt)).await;
        env.b.keep_producer(env.tip, producer);
        let block = match built {
            Ok(Ok(b)) => b,
            Ok(Err(_)) => {
                rep.count(&format!("producer_refused.{}", art.edit));
                continue;
            }
            Err(p) => {
                rep.count(&format!("producer_panicked.{}", art.edit));
                rep.violation(
                    &format!("C01|edit={}|gate=block-producer|panic|{}", art.edit, p.signature()),
                    &format!("[{} {}] Block::create panicked on a pool containing a {} transaction: {}", env.label, build, art.edit, p.message),
                    tx_json(&art.tx),
                );
                continue;
            }
        };
        let bytes = block_bytes(&block);
        let before = sut.tip().await;
        let r = crate::panics::catch_async(sut.add_bytes(&bytes)).await;
        match r {
            Err(p) => {
                rep.violation(
                    &format!("C01|edit={}|gate=block|panic|{}", art.edit, p.signature()),
                    &format!("[{} {}] add_block panicked on a block carrying a {} transaction: {}", env.label, build, art.edit, p.message),
                    json!({"block_hex": hex::encode(&bytes)}),
                );
                // the node may be in an inconsistent state: take a new replica
                sut = env.b.fresh_replica(&env.tip, &victim).await;
            }
            Ok(res) => {
                let after = sut.tip().await;
                if after != before {
                    let mut parsed = Block::deserialize_from_net(&bytes).unwrap();
                    let _ = parsed.generate();
                    let detail: Vec<String> = check_spends(&parsed, &ledger, gp).into_iter().map(|f| format!("{}: {}", f.clause, f.detail)).collect();
                    rep.violation(
                        &format!("C01|edit={}|gate=block", art.edit),
                        &format!("[{}] a block carrying a {} transaction ({}) was accepted onto the longest chain ({:?}); backstop: {:?}", env.label, art.edit, why, res.map(|x| x.short()), detail),
                        json!({"block_hex": hex::encode(&bytes)}),
                    );
                    sut = env.b.fresh_replica(&env.tip, &victim).await;
                } else {
                    rep.count("refused.block");
                }
            }
        }
    }
    // ---- the same output spent by two transactions of one block (Block::create refuses to
    // build this, so the block is assembled and sealed by hand)
    {
        let attacker = env.b.actors[2].clone();
        let outs = ledger.safe_owned_by(&attacker.pk, gp);
        // plain, and with the second spend hidden behind a leading zero-value input of the signer
        let zero = OutRef { owner: attacker.pk, amount: 0, block_id: 0, tx_ordinal: 0, slip_index: 0, slip_type: 0 };
        for (variant, lead) in [("same-input-in-two-txs", None), ("same-input-in-two-txs-behind-zero-value-input", Some(zero))] {
        if let Some(o) = outs.first() {
            let t1 = build_tx(&attacker, &[o.clone()], &[(attacker.pk, o.amount.saturating_sub(10))], tip_ts + 5, &[]);
            let second_inputs: Vec<OutRef> = lead.iter().cloned().chain(std::iter::once(o.clone())).collect();
            let t2 = build_tx(&attacker, &second_inputs, &[(env.b.actors[3].pk, o.amount.saturating_sub(20))], tip_ts + 6, &[]);
            let producer = env.b.producer_at(&env.tip).await;
            if let Ok(mut block) = producer.create_block(env.tip, tip_ts + 2 * env.b.params.heartbeat, vec![t1], None).await {
                block.transactions.push(t2);
                rebuild_header(&producer, &mut block).await;
                let bytes = block_bytes(&block);
                rep.eval();
                rep.count(&format!("edits.{}", variant));
                rep.nontrivial(&format!("{}|{}|block", env.label, variant));
                let before = sut.tip().await;
                let r = crate::panics::catch_async(sut.add_bytes(&bytes)).await;
                match r {
                    Err(p) => rep.violation(
                        &format!("C01|edit={}|gate=block|panic|{}", variant, p.signature()),
                        &format!("[{}] add_block panicked: {}", env.label, p.message),
                        json!({"block_hex": hex::encode(&bytes)}),
                    ),
                    Ok(_) => {
                        if sut.tip().await != before {
                            rep.violation(
                                &format!("C01|edit={}|gate=block", variant),
                                &format!("[{}] a block spending one output in two transactions ({}) was accepted", env.label, variant),
                                json!({"block_hex": hex::encode(&bytes)}),
                            );
                        } else {
                            rep.count("refused.block");
                        }
                    }
                }
            }
            env.b.keep_producer(env.tip, producer);
        }
        // a panic or an accepted block leaves the replica unusable for the next variant
        if sut.tip().await.1 != env.tip {
            sut = env.b.fresh_replica(&env.tip, &victim).await;
        }
        }
    }
}

/// fee level that makes the rolling fee-per-byte average non-zero, so that dust outputs stay
/// in the map past the window (gp small)
async fn wrapped_chain(b: &mut Builder, rng: &mut Rng, len: usize) -> Hash {
    let mut tip = b.genesis;
    for i in 0..len {
        let id = b.store.get(&tip).id + 1;
        let mut exclude = vec![];
        let mut txs = vec![];
        for j in 0..2 {
            let from = (i + j) % b.actors.len();
            // a small "dust" output to the attacker in early blocks, large fees throughout
            let (to, amount) = if i < 3 { (2, 40 + j as u64) } else { ((i + j + 1) % b.actors.len(), 5_000) };
            if let Some(tx) = b.payment(rng, &tip, from, to, amount, 40_000, &mut exclude) {
                txs.push(tx);
            }
        }
        if txs.is_empty() {
            txs.push(build_tx(&b.actors[1], &[], &[], b.store.get(&tip).ts + 5, b"noop"));
        }
        let spec = BlockSpec { gap: 2 * b.params.heartbeat, txs, with_gt: id % 2 == 0, gt_miner: i % b.actors.len() };
        match b.extend(rng, &tip, &spec).await {
            Ok(h) => tip = h,
            Err(e) => {
                eprintln!("wrapped chain stopped at {}: {}", id, e);
                break;
            }
        }
    }
    tip
}

pub async fn run(ctx: &Ctx, rep: &mut Report) {
    if std::env::var("SVH_DEBUG").is_ok() {
        crate::logsink::install_stderr(log::LevelFilter::Warn);
    }
    let mut rng = ctx.rng();
    let n = 4;
    let rounds = ctx.scale(6, 60) / ctx.shards.max(1) + 1;
    for round in 0..rounds {
        // A. fresh chain
        {
            let mut b = Builder::new(&Params::with_gp(20), n, &default_issuance(n)).await;
            let g = b.genesis;
            let tip = b.grow(&mut rng, &g, 2 + (round as usize % 3), 2, 25).await;
            let spent = spent_on_chain(&mut b, &tip);
            let mut env = Env { b, tip, label: "fresh", spent, nft_uuid: None };
            judge_env(&mut env, &mut rng, rep, &ctx.build).await;
            rep.count("contexts.fresh");
        }
        // B. after a reorganisation: the replica is built on the winning fork only, but the
        // attacker may reference outputs of the losing fork (non-existent on this chain)
        {
            let mut b = Builder::new(&Params::with_gp(20), n, &default_issuance(n)).await;
            let g = b.genesis;
            let trunk = b.grow(&mut rng, &g, 2, 2, 25).await;
            let _loser = b.grow(&mut rng, &trunk, 2, 2, 30).await;
            let winner = b.grow(&mut rng, &trunk, 3, 2, 35).await;
            let spent = spent_on_chain(&mut b, &winner);
            let mut env = Env { b, tip: winner, label: "after-reorg", spent, nft_uuid: None };
            judge_env(&mut env, &mut rng, rep, &ctx.build).await;
            rep.count("contexts.after-reorg");
        }
        // C. after the rebroadcast window wrapped
        for gp in [4u64, 6] {
            let mut b = Builder::new(&Params::with_gp(gp), n, &default_issuance(n)).await;
            let tip = wrapped_chain(&mut b, &mut rng, (2 * gp + 3) as usize).await;
            if b.store.get(&tip).id <= gp + 2 {
                rep.count("contexts.wrapped-not-reached");
                continue;
            }
            let spent = spent_on_chain(&mut b, &tip);
            let mut env = Env { b, tip, label: "window-wrapped", spent, nft_uuid: None };
            judge_env(&mut env, &mut rng, rep, &ctx.build).await;
            rep.count("contexts.window-wrapped");
        }
        // E. an NFT group held by the attacker, first bound slip labelled with a large amount
        {
            use saito_core::core::consensus::slip::SlipType;
            let p = Params::with_gp(20);
            let mut b = Builder::new(&p, n, &default_issuance(n)).await;
            let g = b.genesis;
            let t1 = b.grow(&mut rng, &g, 2, 1, 25).await;
            let ledger = b.store.ledger(&t1);
            let creator_of_nft = b.actors[2].clone();
            let attacker = b.actors[2].clone();
            if let Some(o) = ledger.safe_owned_by(&creator_of_nft.pk, p.gp).into_iter().find(|o| o.amount > 50_000) {
                let mut tx = Transaction::default();
                tx.transaction_type = TransactionType::Bound;
                tx.timestamp = b.store.get(&t1).ts + 9;
                tx.add_from_slip(o.to_input());
                let mut s1 = out_slip(&creator_of_nft.pk, 777_000_000);
                s1.slip_type = SlipType::Bound;
                let s2 = out_slip(&attacker.pk, 20_000);
                let mut uuid = [0u8; 33];
                uuid[0..8].copy_from_slice(&o.block_id.to_be_bytes());
                uuid[8..16].copy_from_slice(&o.tx_ordinal.to_be_bytes());
                uuid[16] = o.slip_index;
                let mut s3 = out_slip(&uuid, 0);
                s3.slip_type = SlipType::Bound;
                tx.add_to_slip(s1);
                tx.add_to_slip(s2);
                tx.add_to_slip(s3);
                tx.add_to_slip(out_slip(&creator_of_nft.pk, o.amount - 20_000 - 30));
                tx.sign(&creator_of_nft.sk);
                let id = b.store.get(&t1).id + 1;
                let spec = BlockSpec { gap: 2 * p.heartbeat, txs: vec![tx], with_gt: id % 2 == 0, gt_miner: 0 };
                match b.extend(&mut rng, &t1, &spec).await {
                    Ok(t2) => {
                        let tip = b.grow(&mut rng, &t2, 1, 1, 25).await;
                        let spent = spent_on_chain(&mut b, &tip);
                        let mut env = Env { b, tip, label: "nft-held", spent, nft_uuid: Some(uuid) };
                        judge_env(&mut env, &mut rng, rep, &ctx.build).await;
                        rep.count("contexts.nft-held");
                    }
                    Err(e) => {
                        rep.count("contexts.nft-not-built");
                        rep.note(&format!("nft context not built: {}", e));
                    }
                }
            }
        }
        // D. staking on
        {
            let mut p = Params::with_gp(20);
            p.stake = 1_000;
            p.stake_period = 3;
            let mut b = Builder::new(&p, n, &default_issuance(n)).await;
            let g = b.genesis;
            let tip = b.grow(&mut rng, &g, 3, 2, 25).await;
            let spent = spent_on_chain(&mut b, &tip);
            let mut env = Env { b, tip, label: "staking", spent, nft_uuid: None };
            judge_env(&mut env, &mut rng, rep, &ctx.build).await;
            rep.count("contexts.staking");
        }
    }
    rep.sample(json!({"edit":"foreign-extra-input","meaning":"from[0] is the attacker's own output, from[1] the victim's; signed by the attacker only; outputs to the attacker","gates":["Mempool::add_transaction_if_validates","VerificationThread::verify_tx","Blockchain::add_block of a block built around it by the real producer"]}));
    rep.sample(json!({"edit":"same-input-in-two-txs","meaning":"two transactions of one block spend the same output; block assembled by hand because Block::create refuses"}));
}
