//! C18 — a lite block is a faithful projection of its full block.
use saito_core::core::consensus::block::{Block, BlockType};
use saito_core::core::consensus::merkle::MerkleTree;
use saito_core::core::consensus::transaction::{Transaction, TransactionType};
use serde_json::json;

use crate::chain::{BlockSpec, Builder};
use crate::props::Ctx;
use crate::report::Report;
use crate::rng::Rng;
use crate::world::*;

fn header(b: &Block) -> Vec<u64> {
    vec![
        b.id, b.timestamp, b.graveyard, b.treasury, b.burnfee, b.difficulty, b.avg_total_fees,
        b.avg_fee_per_byte, b.avg_nolan_rebroadcast_per_block, b.previous_block_unpaid,
        b.avg_total_fees_new, b.avg_total_fees_atr, b.avg_payout_routing, b.avg_payout_mining,
        b.avg_payout_treasury, b.avg_payout_graveyard, b.avg_payout_atr, b.total_payout_routing,
        b.total_payout_mining, b.total_payout_treasury, b.total_payout_graveyard,
        b.total_payout_atr, b.total_fees, b.total_fees_new, b.total_fees_atr, b.fee_per_byte,
        b.total_fees_cumulative,
    ]
}

fn touches(tx: &Transaction, keys: &[PK]) -> bool {
    tx.from.iter().any(|s| keys.contains(&s.public_key)) || tx.to.iter().any(|s| keys.contains(&s.public_key))
}

struct Case<'a> {
    full: &'a Block,
    keys: Vec<PK>,
    pattern: String,
}

fn check(rep: &mut Report, c: &Case) {
    let full = c.full;
    let lite = full.generate_lite_block(c.keys.clone());
    rep.eval();
    let n = full.transactions.len();
    let placeholders: Vec<u32> = lite
        .transactions
        .iter()
        .filter(|t| t.transaction_type == TransactionType::SPV)
        .map(|t| t.txs_replacements)
        .collect();
    let class = if placeholders.is_empty() {
        "no-placeholder"
    } else if placeholders.iter().all(|r| *r == 1) {
        "unmerged-placeholders"
    } else {
        "merged-placeholders"
    };
    rep.count(&format!("class.{}", class));
    rep.nontrivial(&format!("{}|{}|{}", n, c.pattern, c.keys.len()));
    let witness = json!({
        "kind": "lite",
        "txs": n,
        "pattern": c.pattern,
        "keys": c.keys.len(),
        "placeholder_counts": placeholders,
        "full_block_hex": hex::encode(block_bytes(full)),
        "keys_hex": c.keys.iter().map(hex::encode).collect::<Vec<_>>(),
    });
    let mut fail = |clause: &str, detail: String| {
        rep.violation(&format!("C18|clause={}|class={}", clause, class), &detail, witness.clone());
    };
    // 1. identity and header
    if lite.id != full.id || lite.hash != full.hash || lite.signature != full.signature || header(&lite) != header(full)
        || lite.previous_block_hash != full.previous_block_hash || lite.creator != full.creator || lite.merkle_root != full.merkle_root
    {
        fail("header", "lite block header / id / hash / signature differs from the full block".into());
    }
    // 2. every touching transaction present in full
    for tx in &full.transactions {
        if touches(tx, &c.keys) {
            let bytes = tx.serialize_for_net();
            if !lite.transactions.iter().any(|t| t.serialize_for_net() == bytes) {
                fail("touching-tx-present", format!("a transaction touching the key list is missing (type {:?})", tx.transaction_type));
                break;
            }
        }
    }
    // 3. placeholders account for exactly the omitted transactions
    let covered: u64 = lite
        .transactions
        .iter()
        .map(|t| if t.transaction_type == TransactionType::SPV { t.txs_replacements as u64 } else { 1 })
        .sum();
    if covered != n as u64 {
        fail("replacement-count", format!("placeholders + transactions cover {} positions, block has {}", covered, n));
    }
    // 4. commitment recomputable from the lite block as generated
    if n > 0 {
        let root = MerkleTree::generate(&lite.transactions).map(|t| t.get_root_hash()).unwrap_or([0; 32]);
        if root != full.merkle_root {
            fail("merkle-recompute", "merkle root recomputed from the lite block's transactions differs from the header's".into());
        }
    }
    // 5. wire round trip keeps the hash; 6. commitment recomputable on the receiving side
    let bytes = lite.serialize_for_net(BlockType::Full);
    match Block::deserialize_from_net(&bytes) {
        Ok(mut got) => {
            let _ = got.generate();
            if got.hash != full.hash {
                fail("wire-hash", "hash of the lite block changed across the wire".into());
            }
            if n > 0 {
                let root = MerkleTree::generate(&got.transactions).map(|t| t.get_root_hash()).unwrap_or([0; 32]);
                if root != full.merkle_root {
                    fail("merkle-recompute-after-wire", "merkle root recomputed by the receiver of the lite block differs from the header's".into());
                }
            }
        }
        Err(e) => fail("wire-decode", e.to_string()),
    }
}

/// full block with `n` payments whose i-th transaction touches `light` iff bit i of `pattern`
async fn make_block(b: &mut Builder, rng: &mut Rng, parent: &Hash, n: usize, pattern: u64, light: usize, with_gt: bool) -> Option<Block> {
    let mut exclude = vec![];
    let mut txs = vec![];
    let others: Vec<usize> = (0..b.actors.len()).filter(|i| *i != light).collect();
    for i in 0..n {
        let touch = (pattern >> i) & 1 == 1;
        let (from, to) = if touch {
            if i % 2 == 0 {
                (others[i % others.len()], light)
            } else {
                (light, others[i % others.len()])
            }
        } else {
            (others[i % others.len()], others[(i + 1) % others.len()])
        };
        let tx = b
            .payment(rng, parent, from, to, 10 + i as u64, 3, &mut exclude)
            .or_else(|| {
                // payer ran out of outputs: any other non-light payer will do for an untouched tx
                None
            })?;
        txs.push(tx);
    }
    if n == 0 && !with_gt {
        return None;
    }
    let spec = BlockSpec { gap: 2 * b.params.heartbeat, txs, with_gt, gt_miner: others[0] };
    let (block, node) = b.produce(rng, parent, &spec).await.ok()?;
    b.keep_producer(*parent, node);
    let mut block = block;
    let _ = block.generate();
    Some(block)
}

pub async fn run(ctx: &Ctx, rep: &mut Report) {
    let mut rng = ctx.rng();
    let n_actors = 5;
    // many small outputs per actor so that blocks of up to 64 payments can be built
    let issuance: Vec<Vec<u64>> = (0..n_actors).map(|i| (0..40).map(|j| 1_000_000 + i as u64 * 100 + j as u64).collect()).collect();
    let mut crng = Rng::new(ctx.seed ^ 0xC18);
    let mut b = Builder::new(&Params::with_gp(100), n_actors, &issuance).await;
    let parent = b.grow(&mut crng, &b.genesis.clone(), 2, 1, 5).await;
    let light = 3usize;
    let light_pk = b.actors[light].pk;
    let other_pk = b.actors[4].pk;
    let max_exh = ctx.scale(8, 10) as usize;
    let mut work = 0u64;
    rep.exhaustive = true;
    // exhaustive: every touch pattern for every n <= max_exh (order of txs inside the block is the
    // producer's hash-map order; the pattern is recorded as it ends up in the block)
    for n in 1..=max_exh {
        for pattern in 0..(1u64 << n) {
            work += 1;
            if !ctx.mine(work) {
                continue;
            }
            let with_gt = pattern % 5 == 0;
            if let Some(block) = make_block(&mut b, &mut rng, &parent, n, pattern, light, with_gt).await {
                let actual: String = block.transactions.iter().map(|t| if t.is_golden_ticket() { 'G' } else if touches(t, &[light_pk]) { '1' } else { '0' }).collect();
                rep.count("blocks");
                check(rep, &Case { full: &block, keys: vec![light_pk], pattern: actual.clone() });
                if pattern % 7 == 0 {
                    check(rep, &Case { full: &block, keys: vec![], pattern: format!("{}/nokeys", actual) });
                    check(rep, &Case { full: &block, keys: vec![light_pk, other_pk], pattern: format!("{}/2keys", actual) });
                    check(rep, &Case { full: &block, keys: vec![b.actors[0].pk], pattern: format!("{}/creator", actual) });
                }
            } else {
                rep.count("blocks_not_built");
            }
        }
    }
    // random: larger blocks
    let rounds = ctx.scale(60, 1500) / ctx.shards.max(1);
    for _ in 0..rounds {
        let n = 11 + rng.below(54) as usize;
        let density = rng.below(5);
        let mut pattern = 0u64;
        for i in 0..n {
            if rng.below(5) < density {
                pattern |= 1 << i;
            }
        }
        let gt = rng.chance(1, 2);
        if let Some(block) = make_block(&mut b, &mut rng, &parent, n, pattern, light, gt).await {
            let actual: String = block.transactions.iter().map(|t| if t.is_golden_ticket() { 'G' } else if touches(t, &[light_pk]) { '1' } else { '0' }).collect();
            rep.count("blocks");
            rep.count("blocks_large");
            check(rep, &Case { full: &block, keys: vec![light_pk], pattern: actual });
        } else {
            rep.count("blocks_not_built");
        }
    }
    // real chain blocks (fee transactions, golden tickets, routed txs)
    let tip = b.grow(&mut crng, &parent, 6, 4, 50).await;
    for h in b.store.ancestors(&tip) {
        let blk = b.store.get(&h).block.clone();
        for keys in [vec![light_pk], vec![b.actors[0].pk], vec![b.actors[1].pk, b.actors[2].pk]] {
            let pattern: String = blk.transactions.iter().map(|t| if touches(t, &keys) { '1' } else { '0' }).collect();
            check(rep, &Case { full: &blk, keys, pattern: format!("chain-{}-{}", blk.id, pattern) });
        }
    }
    rep.sample(json!({"example":"block of n payments; bit i of the pattern decides whether tx i pays to / spends from the light client's key; lite = generate_lite_block([light key])","max_exhaustive_n": max_exh}));
}
