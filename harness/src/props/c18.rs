//! C18 — a lite block is a faithful projection of its full block.
use saito_core::core::consensus::block::{Block, BlockType};
use saito_core::core::consensus::merkle::MerkleTree;
use saito_core::core::consensus::transaction::{Transaction, TransactionType};
use serde_json::json;

use crate::chain::{BlockSpec, Builder};
use crate::props::Ctx;
use crate::report::Report;
use crate::rng::Rng;
use crate::world::*;

fn header(b: &Block) -> Vec<u64> {
    vec![
        b.id, b.timestamp, b.graveyard, b.treasury, b.burnfee, b.difficulty, b.avg_total_fees,
        b.avg_fee_per_byte, b.avg_nolan_rebroadcast_per_block, b.previous_block_unpaid,
        b.avg_total_fees_new, b.avg_total_fees_atr, b.avg_payout_routing, b.avg_payout_mining,
        b.avg_payout_treasury, b.avg_payout_graveyard, b.avg_payout_atr, b.total_payout_routing,
        b.total_payout_mining, b.total_payout_treasury, b.total_payout_graveyard,
        b.total_payout_atr, b.total_fees, b.total_fees_new, b.total_fees_atr, b.fee_per_byte,
        b.total_fees_cumulative,
    ]
}

fn touches(tx: &Transaction, keys: &[PK]) -> bool {
    tx.from.iter().any(|s| keys.contains(&s.public_key)) || tx.to.iter().any(|s| keys.contains(&s.public_key))
}

struct Case<'a> {
    full: &'a Block,
    keys: Vec<PK>,
    pattern: String,
}

fn check(rep: &mut Report, c: &Case) {
    let lite = c.full.generate_lite_block(c.keys.clone());
    check_lite(rep, c, lite, "");
}

/// `lite` is what was produced for `c.keys` (by generate_lite_block directly, or by the node's
/// HTTP route: `origin` = "|served=http-route")
fn check_lite(rep: &mut Report, c: &Case, lite: Block, origin: &str) {
    let full = c.full;
    rep.eval();
    let n = full.transactions.len();
    let placeholders: Vec<u32> = lite
        .transactions
        .iter()
        .filter(|t| t.transaction_type == TransactionType::SPV)
        .map(|t| t.txs_replacements)
        .collect();
    let class = if placeholders.is_empty() {
        "no-placeholder"
    } else if placeholders.iter().all(|r| *r == 1) {
        "unmerged-placeholders"
    } else {
        "merged-placeholders"
    };
    rep.count(&format!("class.{}", class));
    if full.transactions.iter().any(|t| t.from.iter().any(|s| c.keys.contains(&s.public_key)) && !t.to.iter().any(|s| c.keys.contains(&s.public_key))) {
        rep.count("blocks_with_a_listed_key_on_the_input_side_only");
    }
    rep.nontrivial(&format!("{}|{}|{}", n, c.pattern, c.keys.len()));
    let witness = json!({
        "kind": "lite",
        "txs": n,
        "pattern": c.pattern,
        "keys": c.keys.len(),
        "placeholder_counts": placeholders,
        "full_block_hex": hex::encode(block_bytes(full)),
        "keys_hex": c.keys.iter().map(hex::encode).collect::<Vec<_>>(),
    });
    let mut fail = |clause: &str, detail: String| {
        // what the receiver can recompute from placeholders that crossed the wire does not depend
        // on who produced the lite block: same clause (and same known findings) for both origins
        let o = if clause == "merkle-recompute-after-wire" { "" } else { origin };
        rep.violation(&format!("C18|clause={}|class={}{}", clause, class, o), &detail, witness.clone());
    };
    // 1. identity and header
    if lite.id != full.id || lite.hash != full.hash || lite.signature != full.signature || header(&lite) != header(full)
        || lite.previous_block_hash != full.previous_block_hash || lite.creator != full.creator || lite.merkle_root != full.merkle_root
    {
        fail("header", "lite block header / id / hash / signature differs from the full block".into());
    }
    // 2. every touching transaction present in full
    for tx in &full.transactions {
        if touches(tx, &c.keys) {
            let bytes = tx.serialize_for_net();
            if !lite.transactions.iter().any(|t| t.serialize_for_net() == bytes) {
                fail("touching-tx-present", format!("a transaction touching the key list is missing (type {:?})", tx.transaction_type));
                break;
            }
        }
    }
    // 3. placeholders account for exactly the omitted transactions
    let covered: u64 = lite
        .transactions
        .iter()
        .map(|t| if t.transaction_type == TransactionType::SPV { t.txs_replacements as u64 } else { 1 })
        .sum();
    if covered != n as u64 {
        fail("replacement-count", format!("placeholders + transactions cover {} positions, block has {}", covered, n));
    }
    // 4. commitment recomputable from the lite block as generated (a served block has already
    // crossed the wire: clause 6 below)
    if n > 0 && origin.is_empty() {
        let root = MerkleTree::generate(&lite.transactions).map(|t| t.get_root_hash()).unwrap_or([0; 32]);
        if root != full.merkle_root {
            fail("merkle-recompute", "merkle root recomputed from the lite block's transactions differs from the header's".into());
        }
    }
    // 5. wire round trip keeps the hash; 6. commitment recomputable on the receiving side
    let mut lite = lite;
    let bytes = lite.serialize_for_net(BlockType::Full);
    match Block::deserialize_from_net(&bytes) {
        Ok(mut got) => {
            let _ = got.generate();
            if got.hash != full.hash {
                fail("wire-hash", "hash of the lite block changed across the wire".into());
            }
            if n > 0 {
                let root = MerkleTree::generate(&got.transactions).map(|t| t.get_root_hash()).unwrap_or([0; 32]);
                if root != full.merkle_root {
                    fail("merkle-recompute-after-wire", "merkle root recomputed by the receiver of the lite block differs from the header's".into());
                }
            }
        }
        Err(e) => fail("wire-decode", e.to_string()),
    }
}

/// full block with `n` payments whose i-th transaction touches `light` iff bit i of `pattern`
/// one GET over a loopback TCP connection; (status, body)
async fn http_get(port: u16, path: &str) -> Option<(u16, Vec<u8>)> {
    use tokio::io::{AsyncReadExt, AsyncWriteExt};
    let mut s = tokio::net::TcpStream::connect(("127.0.0.1", port)).await.ok()?;
    let req = format!("GET {} HTTP/1.1\r\nHost: 127.0.0.1\r\nConnection: close\r\n\r\n", path);
    s.write_all(req.as_bytes()).await.ok()?;
    let mut buf = vec![];
    s.read_to_end(&mut buf).await.ok()?;
    let split = buf.windows(4).position(|w| w == b"\r\n\r\n")?;
    let head = String::from_utf8_lossy(&buf[..split]).to_string();
    let status: u16 = head.split_whitespace().nth(1)?.parse().ok()?;
    let mut body = buf[split + 4..].to_vec();
    if head.to_ascii_lowercase().contains("transfer-encoding: chunked") {
        // de-chunk
        let mut out = vec![];
        let mut rest = &body[..];
        loop {
            let eol = rest.windows(2).position(|w| w == b"\r\n")?;
            let n = usize::from_str_radix(String::from_utf8_lossy(&rest[..eol]).trim(), 16).ok()?;
            rest = &rest[eol + 2..];
            if n == 0 {
                break;
            }
            out.extend_from_slice(rest.get(..n)?);
            rest = rest.get(n + 2..)?;
        }
        body = out;
    }
    Some((status, body))
}

/// the lite block as a light client gets it: the real warp server of saito-rust (hook
/// `verif_run_server`) serves `/lite-block/<hash>/<key>` from the block files in ./data/blocks; the
/// key list it projects on is the requester's key plus, when the requester is a connected peer,
/// the keys that peer registered
async fn route_slice(ctx: &Ctx, rep: &mut Report, blocks: &[Block], light: &Actor, registered: &Actor, node_pk: PK) {
    use saito_core::core::consensus::peers::peer::Peer;
    use saito_core::core::consensus::peers::peer_collection::PeerCollection;
    use saito_core::core::defs::PrintForLog;
    let scratch = format!("/verif/out/c18-route-{}-{}", std::process::id(), ctx.shard);
    let _ = std::fs::remove_dir_all(&scratch);
    if std::fs::create_dir_all(format!("{}/data/blocks", scratch)).is_err() || std::env::set_current_dir(&scratch).is_err() {
        rep.inconclusive("route slice: scratch directory could not be set up");
        return;
    }
    for b in blocks {
        let name = format!("{}/data/blocks/{}-{}.sai", scratch, b.timestamp, hex::encode(b.hash));
        let _ = std::fs::write(name, block_bytes(b));
    }
    // a connected peer (the light client's key) that registered one further key, and an unknown requester
    let mut peers = PeerCollection::default();
    let mut peer = Peer::new(7);
    peer.public_key = Some(light.pk);
    peer.key_list = vec![registered.pk];
    peers.index_to_peers.insert(7, peer);
    peers.address_to_peers.insert(light.pk, 7);
    let peers = std::sync::Arc::new(saito_core::core::util::verif::RwLock::new(peers));
    let port = match std::net::TcpListener::bind("127.0.0.1:0").and_then(|l| l.local_addr()) {
        Ok(a) => a.port(),
        Err(_) => {
            rep.inconclusive("route slice: no loopback port");
            let _ = std::env::set_current_dir("/verif");
            return;
        }
    };
    let (tx, _rx) = tokio::sync::mpsc::channel(100);
    let server = saito_rust::network_controller::verif_run_server(tx, port, "127.0.0.1".to_string(), node_pk, peers.clone());
    let mut up = false;
    for _ in 0..200 {
        if tokio::net::TcpStream::connect(("127.0.0.1", port)).await.is_ok() {
            up = true;
            break;
        }
        tokio::time::sleep(std::time::Duration::from_millis(25)).await;
    }
    if !up {
        rep.inconclusive("route slice: the server did not come up on the loopback port");
    } else {
        for b in blocks {
            // (requester key in the URL, keys the projection must honour)
            let stranger = registered.pk;
            let cases: Vec<(PK, Vec<PK>, &str)> = vec![(light.pk, vec![registered.pk, light.pk], "connected-peer"), (stranger, vec![stranger], "unknown-requester")];
            for (key, keys, who) in cases {
                let path = format!("/lite-block/{}/{}", hex::encode(b.hash), if b.id % 2 == 0 { key.to_hex() } else { key.to_base58() });
                rep.count("route_requests");
                match http_get(port, &path).await {
                    Some((200, body)) => match Block::deserialize_from_net(&body) {
                        Ok(mut lite) => {
                            let _ = lite.generate();
                            rep.count(&format!("route_lite_blocks_served.{}", who));
                            let pattern: String = b.transactions.iter().map(|t| if touches(t, &keys) { '1' } else { '0' }).collect();
                            check_lite(rep, &Case { full: b, keys: keys.clone(), pattern: format!("route-{}-{}", who, pattern) }, lite, "|served=http-route");
                        }
                        Err(e) => rep.violation("C18|clause=route-reply-undecodable", &format!("GET {} answered 200 with a body that does not decode as a block: {}", path, e), json!({"kind":"route","path":path})),
                    },
                    Some((code, _)) => rep.violation("C18|clause=route-refuses-stored-block", &format!("GET {} answered {}", path, code), json!({"kind":"route","path":path})),
                    None => rep.inconclusive("route slice: request failed on the loopback connection"),
                }
            }
        }
    }
    server.abort();
    let _ = std::env::set_current_dir("/verif");
    let _ = std::fs::remove_dir_all(&scratch);
}

/// a copy of `b` with every numeric header field that is zero set to a distinct non-zero value,
/// re-signed by its creator: short chains leave most averages and payouts at zero, where a
/// projection that forgets a field cannot be told from one that copies it
fn saturate(b: &Block, creator: &Actor) -> Block {
    let mut c = b.clone();
    let mut k = 7_000u64;
    let mut set = |f: &mut u64| {
        k += 13;
        if *f == 0 {
            *f = k;
        }
    };
    set(&mut c.graveyard);
    set(&mut c.treasury);
    set(&mut c.burnfee);
    set(&mut c.difficulty);
    set(&mut c.avg_total_fees);
    set(&mut c.avg_fee_per_byte);
    set(&mut c.avg_nolan_rebroadcast_per_block);
    set(&mut c.previous_block_unpaid);
    set(&mut c.avg_total_fees_new);
    set(&mut c.avg_total_fees_atr);
    set(&mut c.avg_payout_routing);
    set(&mut c.avg_payout_mining);
    set(&mut c.avg_payout_treasury);
    set(&mut c.avg_payout_graveyard);
    set(&mut c.avg_payout_atr);
    set(&mut c.total_payout_routing);
    set(&mut c.total_payout_mining);
    set(&mut c.total_payout_treasury);
    set(&mut c.total_payout_graveyard);
    set(&mut c.total_payout_atr);
    set(&mut c.total_fees);
    set(&mut c.total_fees_new);
    set(&mut c.total_fees_atr);
    set(&mut c.fee_per_byte);
    set(&mut c.total_fees_cumulative);
    crate::props::c04::reseal(&mut c, creator, false);
    c
}

async fn make_block(b: &mut Builder, rng: &mut Rng, parent: &Hash, n: usize, pattern: u64, light: usize, with_gt: bool) -> Option<Block> {
    let mut exclude = vec![];
    let mut txs = vec![];
    let others: Vec<usize> = (0..b.actors.len()).filter(|i| *i != light).collect();
    for i in 0..n {
        let touch = (pattern >> i) & 1 == 1;
        let (from, to) = if touch {
            if i % 2 == 0 {
                (others[i % others.len()], light)
            } else {
                (light, others[i % others.len()])
            }
        } else {
            (others[i % others.len()], others[(i + 1) % others.len()])
        };
        // every second payment of the light client spends a whole output: its key is then on the
        // input side only (no change output that would make the transaction "pay to" it as well)
        let tx = if touch && from == light && i % 4 == 1 {
            b.payment_all(rng, parent, from, to, 3, &mut exclude)?
        } else {
            b.payment(rng, parent, from, to, 10 + i as u64, 3, &mut exclude)?
        };
        txs.push(tx);
    }
    if n == 0 && !with_gt {
        return None;
    }
    let spec = BlockSpec { gap: 2 * b.params.heartbeat, txs, with_gt, gt_miner: others[0] };
    let (block, node) = b.produce(rng, parent, &spec).await.ok()?;
    b.keep_producer(*parent, node);
    let mut block = block;
    let _ = block.generate();
    Some(block)
}

pub async fn run(ctx: &Ctx, rep: &mut Report) {
    let mut rng = ctx.rng();
    let n_actors = 5;
    // many small outputs per actor so that blocks of up to 64 payments can be built
    let issuance: Vec<Vec<u64>> = (0..n_actors).map(|i| (0..40).map(|j| 1_000_000 + i as u64 * 100 + j as u64).collect()).collect();
    let mut crng = Rng::new(ctx.seed ^ 0xC18);
    let mut b = Builder::new(&Params::with_gp(100), n_actors, &issuance).await;
    let parent = b.grow(&mut crng, &b.genesis.clone(), 2, 1, 5).await;
    let light = 3usize;
    let light_pk = b.actors[light].pk;
    let other_pk = b.actors[4].pk;
    let max_exh = ctx.scale(8, 10) as usize;
    let mut work = 0u64;
    rep.exhaustive = true;
    // exhaustive: every touch pattern for every n <= max_exh (order of txs inside the block is the
    // producer's hash-map order; the pattern is recorded as it ends up in the block)
    for n in 1..=max_exh {
        for pattern in 0..(1u64 << n) {
            work += 1;
            if !ctx.mine(work) {
                continue;
            }
            let with_gt = pattern % 5 == 0;
            if let Some(block) = make_block(&mut b, &mut rng, &parent, n, pattern, light, with_gt).await {
                let actual: String = block.transactions.iter().map(|t| if t.is_golden_ticket() { 'G' } else if touches(t, &[light_pk]) { '1' } else { '0' }).collect();
                rep.count("blocks");
                check(rep, &Case { full: &block, keys: vec![light_pk], pattern: actual.clone() });
                if pattern % 7 == 0 {
                    let creator = b.actors[0].clone();
                    if block.creator == creator.pk {
                        let sat = saturate(&block, &creator);
                        rep.count("blocks_with_every_header_field_nonzero");
                        check(rep, &Case { full: &sat, keys: vec![light_pk], pattern: format!("{}/saturated-header", actual) });
                    }
                    check(rep, &Case { full: &block, keys: vec![], pattern: format!("{}/nokeys", actual) });
                    check(rep, &Case { full: &block, keys: vec![light_pk, other_pk], pattern: format!("{}/2keys", actual) });
                    check(rep, &Case { full: &block, keys: vec![b.actors[0].pk], pattern: format!("{}/creator", actual) });
                }
            } else {
                rep.count("blocks_not_built");
            }
        }
    }
    // random: larger blocks
    let rounds = ctx.scale(60, 1500) / ctx.shards.max(1);
    for _ in 0..rounds {
        let n = 11 + rng.below(54) as usize;
        let density = rng.below(5);
        let mut pattern = 0u64;
        for i in 0..n {
            if rng.below(5) < density {
                pattern |= 1 << i;
            }
        }
        let gt = rng.chance(1, 2);
        if let Some(block) = make_block(&mut b, &mut rng, &parent, n, pattern, light, gt).await {
            let actual: String = block.transactions.iter().map(|t| if t.is_golden_ticket() { 'G' } else if touches(t, &[light_pk]) { '1' } else { '0' }).collect();
            rep.count("blocks");
            rep.count("blocks_large");
            check(rep, &Case { full: &block, keys: vec![light_pk], pattern: actual });
        } else {
            rep.count("blocks_not_built");
        }
    }
    // real chain blocks (fee transactions, golden tickets, routed txs)
    let tip = b.grow(&mut crng, &parent, 6, 4, 50).await;
    for h in b.store.ancestors(&tip) {
        let blk = b.store.get(&h).block.clone();
        let creator = b.actors[0].clone();
        if blk.creator == creator.pk {
            let sat = saturate(&blk, &creator);
            rep.count("blocks_with_every_header_field_nonzero");
            let pattern: String = sat.transactions.iter().map(|t| if touches(t, &[light_pk]) { '1' } else { '0' }).collect();
            check(rep, &Case { full: &sat, keys: vec![light_pk], pattern: format!("chain-{}-{}/saturated-header", sat.id, pattern) });
        }
        for keys in [vec![light_pk], vec![b.actors[0].pk], vec![b.actors[1].pk, b.actors[2].pk]] {
            let pattern: String = blk.transactions.iter().map(|t| if touches(t, &keys) { '1' } else { '0' }).collect();
            check(rep, &Case { full: &blk, keys, pattern: format!("chain-{}-{}", blk.id, pattern) });
        }
    }
    // the serving path itself: real chain blocks through the node's HTTP route
    if ctx.mine(0) || ctx.shards <= 1 {
        let served: Vec<Block> = b.store.ancestors(&tip).iter().map(|h| {
            let mut blk = b.store.get(h).block.clone();
            let _ = blk.generate();
            blk
        }).collect();
        let (l, r, n) = (b.actors[light].clone(), b.actors[4].clone(), b.actors[0].pk);
        route_slice(ctx, rep, &served, &l, &r, n).await;
    }
    rep.sample(json!({"example":"block of n payments; bit i of the pattern decides whether tx i pays to / spends from the light client's key; lite = generate_lite_block([light key])","max_exhaustive_n": max_exh}));
}
