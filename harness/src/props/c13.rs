//! C13 — automatic rebroadcast at the retention-window edge: every still-unspent output of the
//! block falling out of the window is handled exactly once by the next block (rebroadcast to
//! the same owner or collected as fee), nothing else is rebroadcast, nothing twice, and
//! outputs older than the window cannot be spent.
use std::collections::{BTreeMap, BTreeSet};

use saito_core::core::consensus::mempool::Mempool;
use saito_core::core::consensus::slip::SlipType;
use saito_core::core::consensus::transaction::{Transaction, TransactionType};
use serde_json::json;

use crate::chain::{BlockSpec, TYPE_BOUND};
use crate::history::{History, HistoryCfg};
use crate::props::Ctx;
use crate::report::Report;
use crate::rng::Rng;
use crate::world::*;

/// a transaction creating an NFT-style bound triple [Bound, Normal, Bound] from one output
fn bound_create_tx(owner: &Actor, recipient: &PK, o: &OutRef, deposit: u64, ts: u64) -> Transaction {
    let mut tx = Transaction::default();
    tx.transaction_type = TransactionType::Bound;
    tx.timestamp = ts;
    tx.add_from_slip(o.to_input());
    let mut s1 = out_slip(&owner.pk, 1);
    s1.slip_type = SlipType::Bound;
    let s2 = out_slip(recipient, deposit);
    let mut uuid = [0u8; 33];
    uuid[0..8].copy_from_slice(&o.block_id.to_be_bytes());
    uuid[8..16].copy_from_slice(&o.tx_ordinal.to_be_bytes());
    uuid[16] = o.slip_index;
    uuid[17..21].copy_from_slice(b"test");
    let mut s3 = out_slip(&uuid, 0);
    s3.slip_type = SlipType::Bound;
    tx.add_to_slip(s1);
    tx.add_to_slip(s2);
    tx.add_to_slip(s3);
    if o.amount > deposit {
        tx.add_to_slip(out_slip(&owner.pk, o.amount - deposit));
    }
    tx.sign(&owner.sk);
    tx
}

struct Seen {
    /// original output key -> block id in which it was rebroadcast / collected
    handled: BTreeMap<[u8; 59], u64>,
}

async fn run_history(name: &str, cfg: HistoryCfg, blocks: usize, with_nft: bool, rng: &mut Rng, rep: &mut Report) {
    let gp = cfg.params.gp;
    let mut h = History::new(cfg.clone()).await;
    let mut seen = Seen { handled: BTreeMap::new() };
    rep.count(&format!("histories.{}", name));
    let mut expiring_blocks = 0u64;
    for bi in 0..blocks {
        // maybe start a fork a few blocks below the head (as History::step does); the new branch
        // is extended from then on and overtakes the old one after a few blocks
        if rng.below(1000) < h.cfg.fork_permille {
            let anc = h.b.store.ancestors(&h.head);
            if anc.len() > 3 {
                let back = 1 + rng.below(2) as usize;
                h.head = anc[anc.len() - 1 - back];
                h.forks_started += 1;
                rep.count("forks_started");
            }
        }
        // build the next block by hand so that NFT creations can be mixed in
        let parent = h.head;
        let mut txs = h.pick_txs(rng, &parent);
        if with_nft && bi % 3 == 1 {
            let ledger = h.b.store.ledger(&parent);
            let a = h.b.actors[1 + rng.below(4) as usize].clone();
            let used: Vec<[u8; 59]> = txs.iter().flat_map(|t| t.from.iter().map(|s| ref_key(&s.public_key, s.block_id, s.tx_ordinal, s.slip_index, s.amount, s.slip_type as u8))).collect();
            if let Some(o) = ledger.safe_owned_by(&a.pk, gp).into_iter().find(|o| o.amount > 20_000 && o.slip_type == 0 && !used.contains(&o.key())) {
                // the holder of the NFT never spends in this history, so the triple reaches the edge
                let to = crate::world::actors(8)[6 + (bi % 2)].pk;
                txs.push(bound_create_tx(&a, &to, &o, (o.amount / 2).max(10_000) + rng.below(5_000), h.b.store.get(&parent).ts + 7));
                rep.count("nft_creations_submitted");
            }
        }
        let with_gt = h.pick_gt(rng, &parent);
        let gap = *rng.pick(&h.cfg.gaps);
        let spec = BlockSpec { gap, txs, with_gt, gt_miner: rng.below(5) as usize };
        let step = match h.deliver_spec(rng, &parent, &spec).await {
            Ok(s) => s,
            Err(e) => {
                rep.count("producer_failures");
                rep.note(&format!("[{}] {}", name, &e[..e.len().min(140)]));
                let pb = h.b.store.get(&parent).block.clone();
                let wrapped = pb.id + 1 > gp + 1;
                let staked = gp as u128 * pb.avg_nolan_rebroadcast_per_block as u128;
                let multiplier_gt1 = wrapped && staked > 0 && pb.treasury as u128 / staked >= 1;
                let witness = json!({"kind":"history","regime":name,"params":cfg.params.describe(),"chain_hex": h.b.store.ancestors(&parent).iter().map(|x| hex::encode(&h.b.store.get(x).bytes)).collect::<Vec<_>>()});
                if multiplier_gt1 {
                    // the producer cannot continue once the payout multiplier exceeds 1 (C07 known finding)
                    rep.count("histories_ended_by_atr_multiplier_gt1");
                } else if wrapped && e.contains("panicked") {
                    rep.violation(
                        &format!("C13|clause=block-with-rebroadcasts-aborts-node|{}", e.split('[').nth(1).unwrap_or("").trim_end_matches(']')),
                        &format!("[{} gp={}] the honest block {} (rebroadcasting block {}) makes its own producer abort: {}", name, gp, pb.id + 1, pb.id - gp, e),
                        witness,
                    );
                } else if wrapped {
                    rep.violation(
                        "C13|clause=producer-refuses-block-with-rebroadcasts|state=ordinary",
                        &format!("[{} gp={}] the honest block {} (rebroadcasting block {}) is refused by its own producer: {}", name, gp, pb.id + 1, pb.id - gp, e),
                        witness,
                    );
                }
                break;
            }
        };
        if !matches!(step.replica_result, Some(Added::Ok(_))) {
            rep.count("replica_refused");
            // the replica has seen every branch (in arrival order), the producer only the one it
            // builds on: a block its producer accepts and the replica refuses means the two
            // disagree about what is due for rebroadcast
            let pb = h.b.store.get(&parent).block.clone();
            if pb.id + 1 > gp + 1 {
                rep.violation(
                    "C13|clause=replica-refuses-block-with-rebroadcasts",
                    &format!("[{} gp={}] block {} (rebroadcasting block {}), built and accepted by its producer, is refused by a replica that received all branches: {:?}", name, gp, pb.id + 1, pb.id - gp, step.replica_result.as_ref().map(|x| x.short())),
                    json!({"kind":"history","regime":name,"params":cfg.params.describe(),"chain_hex": h.b.store.ancestors(&step.hash).iter().map(|x| hex::encode(&h.b.store.get(x).bytes)).collect::<Vec<_>>()}),
                );
            }
            break;
        }
        let blk = h.b.store.get(&step.hash).block.clone();
        let n = blk.id;
        rep.eval();
        if std::env::var("SVH_DEBUG").is_ok() {
            for (ti, t) in blk.transactions.iter().enumerate() {
                if t.transaction_type == TransactionType::Bound {
                    eprintln!("[{}] bound tx in block {} ordinal {} outs {:?}", name, n, ti, t.to.iter().map(|s| (s.slip_type as u8, s.amount)).collect::<Vec<_>>());
                }
            }
            if n > gp + 1 {
                let led = h.b.store.ledger(&parent);
                let d: Vec<_> = led.utxo.values().filter(|o| o.block_id == n - gp - 1 && o.slip_type == TYPE_BOUND).collect();
                if !d.is_empty() { eprintln!("[{}] block {} has bound due {:?}", name, n, d.len()); }
                let mblk = h.b.store.ancestors(&parent).into_iter().find(|a| h.b.store.get(a).id == n - gp - 1).unwrap();
                if h.b.store.get(&mblk).block.transactions.iter().any(|t| t.transaction_type == TransactionType::Bound) {
                    let all: Vec<_> = led.utxo.values().filter(|o| o.block_id == n - gp - 1).map(|o| (o.tx_ordinal, o.slip_index, o.slip_type, o.amount)).collect();
                    eprintln!("[{}] block {} expiring block {} had a bound tx; due = {:?}", name, n, n - gp - 1, all);
                }
            }
        }
        rep.add("bound_txs_in_blocks", blk.transactions.iter().filter(|t| t.transaction_type == TransactionType::Bound).count() as u64);
        let atr_txs: Vec<&Transaction> = blk.transactions.iter().filter(|t| t.transaction_type == TransactionType::ATR).collect();
        let witness = json!({"kind":"history","regime":name,"params":cfg.params.describe(),"chain_hex": h.b.store.ancestors(&step.hash).iter().map(|x| hex::encode(&h.b.store.get(x).bytes)).collect::<Vec<_>>()});
        if n <= gp + 1 {
            if !atr_txs.is_empty() {
                rep.violation("C13|clause=rebroadcast-before-window-wrapped", &format!("[{}] block {} carries {} rebroadcasts with genesis period {}", name, n, atr_txs.len(), gp), witness);
                return;
            }
            continue;
        }
        expiring_blocks += 1;
        rep.count("expiring_blocks");
        if step.reorg {
            rep.count("reorgs");
        }
        // was the swept height contested (a block of another branch stored at that height)?
        if h.b.store.map.values().filter(|s| s.id == n - gp - 1).count() > 1 {
            rep.count("swept_heights_with_blocks_of_two_branches");
        }
        rep.nontrivial(&format!("{}|{}|{}|{}", name, gp, n, atr_txs.len()));
        // ---- reference: unspent outputs of block m = n - gp - 1 on THIS chain, as of the parent
        let m = n - gp - 1;
        let ledger = h.b.store.ledger(&parent);
        let due: Vec<OutRef> = ledger.utxo.values().filter(|o| o.block_id == m).cloned().collect();
        let mut due_value: u128 = 0;
        let mut unmatched: BTreeSet<[u8; 59]> = BTreeSet::new();
        let mut by_coord: BTreeMap<(PK, u64, u64, u8), OutRef> = BTreeMap::new();
        for o in &due {
            if o.slip_type != TYPE_BOUND {
                due_value += o.amount as u128;
            }
            unmatched.insert(o.key());
            by_coord.insert((o.owner, o.block_id, o.tx_ordinal, o.slip_index), o.clone());
        }
        if std::env::var("SVH_DEBUG").is_ok() && due.iter().any(|o| o.slip_type == TYPE_BOUND) {
            eprintln!("block {} due (m={}): {:?}", n, m, due.iter().map(|o| (o.tx_ordinal, o.slip_index, o.slip_type, o.amount)).collect::<Vec<_>>());
            for t in &atr_txs {
                eprintln!("   atr from {:?} to {:?}", t.from.iter().map(|s| (s.tx_ordinal, s.slip_index, s.slip_type as u8, s.amount)).collect::<Vec<_>>(), t.to.iter().map(|s| (s.slip_type as u8, s.amount)).collect::<Vec<_>>());
            }
        }
        // ---- every rebroadcast of block n matches exactly one due output
        let mut atr_out_value: u128 = 0;
        for tx in &atr_txs {
            rep.count("atr_txs");
            let triple = tx.from.len() == 3 && tx.to.len() == 3 && tx.from[0].slip_type == SlipType::Bound && tx.from[2].slip_type == SlipType::Bound;
            if triple {
                rep.count("atr_triples");
            }
            if !(triple || (tx.from.len() == 1 && tx.to.len() == 1)) {
                rep.violation("C13|clause=rebroadcast-shape", &format!("[{}] block {}: rebroadcast with {} inputs / {} outputs", name, n, tx.from.len(), tx.to.len()), witness.clone());
                return;
            }
            for (i, input) in tx.from.iter().enumerate() {
                let coord = (input.public_key, input.block_id, input.tx_ordinal, input.slip_index);
                let orig = match by_coord.get(&coord) {
                    Some(o) => o.clone(),
                    None => {
                        // zero-amount bound slips never enter the ledger; accept them inside a triple
                        if triple && input.amount == 0 {
                            continue;
                        }
                        rep.violation(
                            "C13|clause=rebroadcast-of-output-not-due",
                            &format!("[{}] block {} rebroadcasts an output at {}-{}-{} (amount {}) that is not an unspent output of block {} on this chain", name, n, input.block_id, input.tx_ordinal, input.slip_index, input.amount, m),
                            witness.clone(),
                        );
                        return;
                    }
                };
                if !unmatched.remove(&orig.key()) {
                    rep.violation("C13|clause=rebroadcast-twice-in-block", &format!("[{}] block {} rebroadcasts output {}-{}-{} twice", name, n, orig.block_id, orig.tx_ordinal, orig.slip_index), witness.clone());
                    return;
                }
                if let Some(prev) = seen.handled.get(&orig.key()) {
                    if h.b.store.is_ancestor(&h.b.store.ancestors(&parent).iter().find(|a| h.b.store.get(a).id == *prev).cloned().unwrap_or([1; 32]), &parent) {
                        rep.violation("C13|clause=rebroadcast-twice-across-blocks", &format!("[{}] output rebroadcast in block {} and again in block {}", name, prev, n), witness.clone());
                        return;
                    }
                }
                seen.handled.insert(orig.key(), n);
                let out = &tx.to[i];
                if out.public_key != orig.owner {
                    rep.violation("C13|clause=owner-changed", &format!("[{}] block {}: rebroadcast of an output of {} pays {}", name, n, actor_name(&h.b.actors, &orig.owner), actor_name(&h.b.actors, &out.public_key)), witness.clone());
                    return;
                }
                if orig.slip_type != TYPE_BOUND {
                    if out.slip_type != SlipType::ATR {
                        rep.violation("C13|clause=output-type", &format!("[{}] block {}: rebroadcast output has type {:?}", name, n, out.slip_type), witness.clone());
                    }
                    if input.amount < orig.amount {
                        rep.violation("C13|clause=input-below-original", &format!("[{}] block {}: rebroadcast input {} below original value {}", name, n, input.amount, orig.amount), witness.clone());
                    }
                    if input.amount > orig.amount {
                        rep.count("atr_with_treasury_payout");
                    }
                    if out.amount < input.amount {
                        rep.count("atr_with_fee");
                    }
                    // the rebroadcast fee, recomputed: size of the ORIGINAL transaction x the
                    // parent block's smoothed fee per byte, deducted from what enters the rebroadcast
                    let mblock = h.b.store.ancestors(&parent).into_iter().find(|a| h.b.store.get(a).id == m).map(|a| h.b.store.get(&a).block.clone());
                    if let Some(mb) = mblock {
                        if let Some(otx) = mb.transactions.get(orig.tx_ordinal as usize) {
                            let fee = otx.get_serialized_size() as u128 * h.b.store.get(&parent).block.avg_fee_per_byte as u128;
                            rep.count("rebroadcast_fees_recomputed");
                            if fee > 0 {
                                rep.count("rebroadcast_fees_recomputed_nonzero");
                            }
                            if (input.amount as u128) <= fee || out.amount as u128 != input.amount as u128 - fee {
                                rep.violation(
                                    "C13|clause=rebroadcast-fee",
                                    &format!("[{}] block {}: output {}-{}-{} enters the rebroadcast with {} and leaves with {}; the fee should be {} ({} bytes x {} per byte)", name, n, orig.block_id, orig.tx_ordinal, orig.slip_index, input.amount, out.amount, fee, otx.get_serialized_size(), h.b.store.get(&parent).block.avg_fee_per_byte),
                                    witness.clone(),
                                );
                                return;
                            }
                        }
                    }
                    atr_out_value += out.amount as u128;
                    rep.count("outputs_rebroadcast");
                }
            }
        }
        // ---- what was not rebroadcast must have been collected as fee (dust), exactly once
        let mut dust_value: u128 = 0;
        for k in &unmatched {
            let o = ledger.utxo.get(k).unwrap();
            if o.slip_type == TYPE_BOUND {
                // a bound slip on its own (not in a valid triple) carries no value
                continue;
            }
            dust_value += o.amount as u128;
            rep.count("outputs_collected_as_dust");
            seen.handled.insert(*k, n);
        }
        // conservation of the expiring value: due + treasury payout == rebroadcast outputs + fees
        let lhs = due_value + blk.total_payout_atr as u128;
        let rhs = atr_out_value + blk.total_fees_atr as u128;
        if lhs != rhs {
            rep.violation(
                "C13|clause=expiring-value-not-conserved",
                &format!("[{}] block {}: unspent value of block {} is {} (+ treasury payout {}), rebroadcast outputs {} + rebroadcast fees {} (dust {} in {} outputs)", name, n, m, due_value, blk.total_payout_atr, atr_out_value, blk.total_fees_atr, dust_value, unmatched.len()),
                witness.clone(),
            );
            return;
        }
        if (blk.total_fees_atr as u128) < dust_value {
            rep.violation("C13|clause=dust-not-collected", &format!("[{}] block {}: {} of dust but only {} of rebroadcast fees", name, n, dust_value, blk.total_fees_atr), witness.clone());
            return;
        }
        rep.add("outputs_matched", (due.len() - unmatched.len()) as u64);
        // ---- the originals (and anything older than the window) can no longer be spent: probe
        // on the replica after it accepted block n
        if step.tip_moved && expiring_blocks % 4 == 1 {
            let t = step.hash;
            forged_rebroadcast_probe(&mut h, rng, rep, name, &t).await;
        }
        if step.tip_moved && expiring_blocks % 2 == 0 {
            let chain = h.replica.chain.read().await;
            let mut probes: Vec<OutRef> = due.iter().filter(|o| o.slip_type != TYPE_BOUND && h.b.actors.iter().any(|a| a.pk == o.owner)).take(3).cloned().collect();
            // something older still unspent in the reference ledger of the parent
            probes.extend(ledger.utxo.values().filter(|o| o.block_id < m && o.slip_type != TYPE_BOUND && h.b.actors.iter().any(|a| a.pk == o.owner)).take(2).cloned());
            // ... and the outputs of the very next block to expire (created in block n - gp): the
            // rebroadcast section of block n + 1 handles them, so a transaction in block n + 1 can
            // no longer spend them either
            let after = h.b.store.ledger(&step.hash);
            let edge: Vec<OutRef> = after.utxo.values().filter(|o| o.block_id + gp == n && o.slip_type != TYPE_BOUND && o.amount > 0 && h.b.actors.iter().any(|a| a.pk == o.owner)).take(3).cloned().collect();
            rep.add("expired_spend_probes_at_window_edge", edge.len() as u64);
            probes.extend(edge);
            for o in probes {
                let owner = h.b.actors.iter().find(|a| a.pk == o.owner).unwrap().clone();
                let tx = build_tx(&owner, &[o.clone()], &[(owner.pk, o.amount.saturating_sub(1))], blk.timestamp + 5, &[]);
                let mut pool = Mempool::new(h.replica.wallet.clone());
                pool.add_transaction_if_validates(tx.clone(), &chain).await;
                rep.count("expired_spend_probes");
                if pool.transactions.contains_key(&tx.signature) {
                    rep.violation(
                        "C13|clause=expired-output-still-spendable",
                        &format!("[{}] after block {} an output created in block {} (amount {}) is still accepted by the pool gate", name, n, o.block_id, o.amount),
                        json!({"tx_hex": hex::encode(tx.serialize_for_net())}),
                    );
                }
            }
        }
    }
    if expiring_blocks > 0 {
        rep.sample(json!({"regime": name, "gp": gp, "expiring_blocks": expiring_blocks}));
    }
}

/// "no other output is rebroadcast": a hostile producer puts a rebroadcast-typed transaction that
/// moves a live, in-window output of somebody else to itself into its next block (with and without
/// a rebroadcast-typed output slip; the block is otherwise what the real producer builds). A node
/// holding the parent chain must not adopt the block.
async fn forged_rebroadcast_probe(h: &mut History, rng: &mut Rng, rep: &mut Report, name: &str, tip: &Hash) {
    use saito_core::core::consensus::slip::SlipType;
    use saito_core::core::consensus::transaction::TransactionType;
    let gp = h.cfg.params.gp;
    let ledger = h.b.store.ledger(tip);
    let n = ledger.tip_id + 1;
    let attacker = h.b.actors[0].clone();
    let victim_out = ledger.utxo.values().find(|o| o.owner != attacker.pk && o.slip_type == 0 && o.amount > 1_000 && o.block_id + gp > n + 2 && h.b.actors.iter().any(|a| a.pk == o.owner)).cloned();
    let vo = match victim_out {
        Some(o) => o,
        None => return,
    };
    let victim = h.b.actors.iter().find(|a| a.pk == vo.owner).unwrap().clone();
    let ts = h.b.store.get(tip).ts;
    // "reappears for the same owner": an output that was rebroadcast (slip type ATR) still belongs
    // to its owner; somebody else's transaction listing it as a further input must not be admitted
    let thief = h.b.actors[2].clone();
    let rebroadcast_out = ledger.utxo.values().find(|o| o.slip_type == 1 && o.owner != thief.pk && o.amount > 100 && o.block_id + gp > n + 2 && h.b.actors.iter().any(|a| a.pk == o.owner)).cloned();
    let own = ledger.safe_owned_by(&thief.pk, gp).into_iter().find(|o| o.slip_type == 0 && o.amount > 100);
    if let (Some(ro), Some(own)) = (rebroadcast_out, own) {
        let tx = build_tx(&thief, &[own.clone(), ro.clone()], &[(thief.pk, own.amount + ro.amount - 20)], ts + 60, &[]);
        let key = h.b.actors[h.cfg.replica_key].clone();
        let node = h.b.fresh_replica(tip, &key).await;
        let chain = node.chain.read().await;
        let mut pool = Mempool::new(node.wallet.clone());
        pool.add_transaction_if_validates(tx.clone(), &chain).await;
        rep.eval();
        rep.count("rebroadcast_output_theft_probes");
        if pool.transactions.contains_key(&tx.signature) {
            rep.violation(
                "C13|clause=rebroadcast-output-spendable-by-another-key",
                &format!("[{}] at block {}: an output rebroadcast in block {} (amount {}) is accepted as a further input of a transaction signed by somebody else", name, n, ro.block_id, ro.amount),
                json!({"tx_hex": hex::encode(tx.serialize_for_net())}),
            );
        }
    }
    for atr_output in [true, false] {
        let mut tx = build_tx(&attacker, &[vo.clone()], &[(attacker.pk, vo.amount)], ts + 50, &[]);
        tx.transaction_type = TransactionType::ATR;
        if atr_output {
            tx.to[0].slip_type = SlipType::ATR;
        }
        tx.data = build_tx(&victim, &[vo.clone()], &[(victim.pk, vo.amount.saturating_sub(10))], ts + 50, &[]).serialize_for_net();
        tx.sign(&attacker.sk);
        let with_gt = h.pick_gt(rng, tip);
        let gt = if with_gt {
            let ticket = mine_gt(rng, *tip, h.b.store.get(tip).block.difficulty, &attacker.pk);
            Some(gt_tx(&ticket, &attacker))
        } else {
            None
        };
        let producer = h.b.producer_at(tip).await;
        let built = crate::panics::catch_async(producer.create_block(*tip, ts + 2 * h.cfg.params.heartbeat, vec![tx], gt)).await;
        h.b.keep_producer(*tip, producer);
        let block = match built {
            Ok(Ok(b)) => b,
            _ => {
                rep.count("forged_rebroadcast_producer_refused");
                continue;
            }
        };
        let bytes = block_bytes(&block);
        let key = h.b.actors[h.cfg.replica_key].clone();
        let mut node = h.b.fresh_replica(tip, &key).await;
        let before = node.tip().await;
        let r = crate::panics::catch_async(node.add_bytes(&bytes)).await;
        rep.eval();
        rep.count("forged_rebroadcast_probes");
        rep.nontrivial(&format!("forged-atr|{}|{}|{}", name, n, atr_output));
        match r {
            Err(p) => rep.violation(&format!("C13|clause=forged-rebroadcast-aborts-node|{}", p.signature()), &format!("[{}] block {} carrying a forged rebroadcast: {}", name, n, p.message), json!({"block_hex": hex::encode(&bytes)})),
            Ok(_) => {
                if node.tip().await != before {
                    rep.violation(
                        &format!("C13|clause=output-not-due-rebroadcast-to-another-owner|output-slip={}", if atr_output { "atr" } else { "normal" }),
                        &format!("[{}] block {} carries a rebroadcast-typed transaction that moves an output of block {} (amount {}, in window, not due) from its owner to the block's creator, and is adopted", name, n, vo.block_id, vo.amount),
                        json!({"block_hex": hex::encode(&bytes)}),
                    );
                }
            }
        }
    }
}

pub async fn run(ctx: &Ctx, rep: &mut Report) {
    let mut rng = ctx.rng();
    let mut work = 0u64;
    let gps: Vec<u64> = if ctx.thorough { vec![3, 4, 6, 10] } else { vec![3, 4, 6] };
    for _ in 0..ctx.scale(4, 24) {
        for gp in &gps {
            for regime in 0..5 {
                work += 1;
                if !ctx.mine(work) {
                    continue;
                }
                let mut cfg = HistoryCfg::basic(Params::with_gp(*gp));
                cfg.issuance = (0..5).map(|i| (0..12).map(|j| 2_000_000 + 10_000 * j as u64 + i as u64).collect()).collect();
                let name = match regime {
                    0 => {
                        cfg.fee = (0, 200);
                        "zero-rebroadcast-fee"
                    }
                    1 => {
                        cfg.fee = (30_000, 90_000);
                        cfg.dust_permille = 400;
                        "rebroadcast-fee-and-dust"
                    }
                    2 => {
                        cfg.fee = (1_000, 60_000);
                        cfg.fork_permille = 200;
                        cfg.dust_permille = 200;
                        "forks-across-the-edge"
                    }
                    3 => {
                        cfg.fee = (20_000, 70_000);
                        cfg.dust_permille = 200;
                        "nft-triples"
                    }
                    _ => {
                        cfg.fee_fraction_permille = Some(600);
                        cfg.issuance = (0..5).map(|i| (0..20).map(|j| 1_000_000 + 1000 * i as u64 + j as u64).collect()).collect();
                        "fee-burn"
                    }
                };
                let blocks = (5 * *gp as usize + 6).min(60);
                run_history(name, cfg, if regime == 4 { 120 } else { blocks }, regime == 3, &mut rng, rep).await;
            }
        }
    }
}
