//! C06 — a block's identity binds its content and its creator.
use std::collections::HashMap;
use std::sync::Arc;

use saito_core::core::consensus::block::Block;
use saito_core::core::consensus_thread::ConsensusEvent;
use saito_core::core::defs::{StatVariable, STAT_BIN_COUNT};
use saito_core::core::verification_thread::VerificationThread;
use serde_json::json;

use crate::history::{History, HistoryCfg};
use crate::props::Ctx;
use crate::report::Report;
use crate::rng::Rng;
use crate::world::*;

#[derive(Clone, Copy, Debug, PartialEq, Eq)]
pub enum Edit {
    DropTx,
    DuplicateTx,
    SwapTxs,
    ReverseTxs,
    AddForeignTx,
    MutateTxAmount,
    /// the slip type of a payment's output changed (Normal -> BlockStake): another utxo key
    MutateTxOutputType,
    MutateTxData,
    ZeroMerkleRootAndDropTx,
    ZeroMerkleRoot,
    ReplaceCreator,
    FlipSignature,
    ZeroSignature,
    /// point an input at another unspent output of the same owner / amount / slip index
    RewriteInputCoordinates,
    /// every transaction removed, header (merkle root included) kept: decodes as a header block
    StripAllTxs,
    /// last transaction removed AND the header's merkle root rewritten to match, signature kept:
    /// the root is part of what the creator signed, so the identity must change
    DropTxAndFixRoot,
    /// a fee-less transaction replaced by a slip-less SPV placeholder carrying its hash (what a
    /// lite block does) inside a block offered to a full node
    SpvPlaceholder,
    // header fields inside the signed pre-hash (identity must change)
    SignedField(usize),
    // header fields outside the signed pre-hash (observation only)
    UnsignedField(usize),
}

fn tx_list_id(b: &Block) -> Vec<Vec<u8>> {
    b.transactions.iter().map(|t| t.serialize_for_net()).collect()
}

/// apply the edit to the wire bytes' parsed form WITHOUT re-sealing; None when not applicable
pub fn apply(edit: Edit, orig: &Block, donor: Option<&Block>, rng: &mut Rng) -> Option<Block> {
    let mut b = Block::deserialize_from_net(&block_bytes(orig)).ok()?;
    let n = b.transactions.len();
    match edit {
        Edit::DropTx => {
            if n < 2 {
                return None;
            }
            b.transactions.remove(rng.below(n as u64) as usize);
        }
        Edit::DuplicateTx => {
            let t = b.transactions[rng.below(n as u64) as usize].clone();
            b.transactions.push(t);
        }
        Edit::SwapTxs => {
            if n < 2 {
                return None;
            }
            let i = rng.below(n as u64 - 1) as usize;
            b.transactions.swap(i, i + 1);
        }
        Edit::ReverseTxs => {
            if n < 2 {
                return None;
            }
            b.transactions.reverse();
        }
        Edit::AddForeignTx => {
            let d = donor?;
            let t = d.transactions.iter().find(|t| t.transaction_type == saito_core::core::consensus::transaction::TransactionType::Normal)?.clone();
            b.transactions.insert(rng.below(n as u64 + 1) as usize, t);
        }
        Edit::MutateTxAmount => {
            let i = b.transactions.iter().position(|t| t.to.iter().any(|s| s.amount > 1))?;
            let j = b.transactions[i].to.iter().position(|s| s.amount > 1)?;
            b.transactions[i].to[j].amount -= 1;
        }
        Edit::MutateTxOutputType => {
            use saito_core::core::consensus::slip::SlipType;
            use saito_core::core::consensus::transaction::TransactionType;
            let i = b.transactions.iter().position(|t| t.transaction_type == TransactionType::Normal && t.to.iter().any(|s| s.amount > 1 && s.slip_type == SlipType::Normal))?;
            let j = b.transactions[i].to.iter().position(|s| s.amount > 1 && s.slip_type == SlipType::Normal)?;
            b.transactions[i].to[j].slip_type = SlipType::BlockStake;
        }
        Edit::MutateTxData => {
            let i = rng.below(n as u64) as usize;
            b.transactions[i].data.push(0x5a);
        }
        Edit::ZeroMerkleRootAndDropTx => {
            if n < 2 {
                return None;
            }
            b.merkle_root = [0; 32];
            b.transactions.pop();
        }
        Edit::ZeroMerkleRoot => b.merkle_root = [0; 32],
        Edit::ReplaceCreator => b.creator[5] ^= 1,
        Edit::FlipSignature => b.signature[rng.below(64) as usize] ^= 1 << rng.below(8),
        Edit::ZeroSignature => b.signature = [0; 64],
        Edit::RewriteInputCoordinates => return None, // built by rewrite_input() with ledger access
        Edit::DropTxAndFixRoot => {
            if n < 2 {
                return None;
            }
            b.transactions.pop();
            let _ = b.generate();
            b.merkle_root = b.generate_merkle_root(false, false);
        }
        Edit::StripAllTxs => {
            if n == 0 {
                return None;
            }
            b.transactions.clear();
        }
        Edit::SpvPlaceholder => {
            use saito_core::core::consensus::transaction::{Transaction, TransactionType};
            let mut g = orig.clone();
            let _ = g.generate();
            let i = g.transactions.iter().position(|t| t.transaction_type == TransactionType::Normal && t.total_fees == 0 && t.from.iter().all(|s| s.amount == 0) && t.to.iter().all(|s| s.amount == 0))?;
            let h = g.transactions[i].hash_for_signature?;
            let mut ph = Transaction::default();
            ph.transaction_type = TransactionType::SPV;
            ph.txs_replacements = 1;
            ph.signature[0..32].copy_from_slice(&h);
            b.transactions[i] = ph;
        }
        Edit::SignedField(k) => match k % 12 {
            0 => b.id += 1,
            1 => b.timestamp += 1,
            2 => b.previous_block_hash[0] ^= 1,
            3 => b.graveyard += 1,
            4 => b.treasury += 1,
            5 => b.burnfee += 1,
            6 => b.difficulty += 1,
            7 => b.avg_fee_per_byte += 1,
            8 => b.avg_nolan_rebroadcast_per_block += 1,
            9 => b.previous_block_unpaid += 1,
            10 => b.avg_total_fees += 1,
            _ => b.avg_payout_routing += 1,
        },
        Edit::UnsignedField(k) => match k % 10 {
            0 => b.total_fees += 1,
            1 => b.total_fees_new += 1,
            2 => b.total_fees_atr += 1,
            3 => b.total_fees_cumulative += 1,
            4 => b.total_payout_routing += 1,
            5 => b.total_payout_mining += 1,
            6 => b.total_payout_treasury += 1,
            7 => b.fee_per_byte += 1,
            8 => b.avg_payout_treasury += 1,
            _ => b.avg_payout_atr += 1,
        },
    }
    Some(b)
}

/// same transaction hashes (merkle leaves) but different bytes: the difference lies in fields the
/// transaction hash does not cover (block id / ordinal of an input)
fn same_leaves_different_bytes(a: &Block, b: &Block) -> bool {
    let la: Vec<_> = a.transactions.iter().map(|t| t.hash_for_signature).collect();
    let lb: Vec<_> = b.transactions.iter().map(|t| t.hash_for_signature).collect();
    if la != lb || tx_list_id(a) == tx_list_id(b) || a.transactions.len() != b.transactions.len() {
        return false;
    }
    // ... and the bytes differ in nothing but the coordinates (block id, ordinal) of inputs
    let norm = |t: &saito_core::core::consensus::transaction::Transaction| {
        let mut t = t.clone();
        for s in t.from.iter_mut() {
            s.block_id = 0;
            s.tx_ordinal = 0;
        }
        t.serialize_for_net()
    };
    a.transactions.iter().zip(b.transactions.iter()).all(|(x, y)| norm(x) == norm(y))
}

/// rewrite one input to a twin output (same owner, amount, slip index, type; other block id /
/// ordinal) that is unspent on the parent's ledger
fn rewrite_input(orig: &Block, ledger: &crate::chain::RefLedger, gp: u64) -> Option<Block> {
    let mut b = Block::deserialize_from_net(&block_bytes(orig)).ok()?;
    let spent_here: Vec<[u8; 59]> = orig.transactions.iter().flat_map(|t| t.from.iter().map(|s| ref_key(&s.public_key, s.block_id, s.tx_ordinal, s.slip_index, s.amount, s.slip_type as u8))).collect();
    for tx in b.transactions.iter_mut() {
        if tx.transaction_type != saito_core::core::consensus::transaction::TransactionType::Normal {
            continue;
        }
        for input in tx.from.iter_mut() {
            if input.amount == 0 {
                continue;
            }
            let twin = ledger.utxo.values().find(|o| {
                o.owner == input.public_key
                    && o.amount == input.amount
                    && o.slip_index == input.slip_index
                    && o.slip_type == input.slip_type as u8
                    && (o.block_id, o.tx_ordinal) != (input.block_id, input.tx_ordinal)
                    && ledger.in_window(o, gp)
                    && !spent_here.contains(&o.key())
            });
            if let Some(t) = twin {
                input.block_id = t.block_id;
                input.tx_ordinal = t.tx_ordinal;
                return Some(b);
            }
        }
    }
    None
}

fn edits(rng: &mut Rng) -> Vec<Edit> {
    let mut v = vec![
        Edit::DropTx,
        Edit::DuplicateTx,
        Edit::SwapTxs,
        Edit::ReverseTxs,
        Edit::AddForeignTx,
        Edit::MutateTxAmount,
        Edit::MutateTxOutputType,
        Edit::MutateTxData,
        Edit::ZeroMerkleRootAndDropTx,
        Edit::ZeroMerkleRoot,
        Edit::ReplaceCreator,
        Edit::FlipSignature,
        Edit::ZeroSignature,
        Edit::RewriteInputCoordinates,
        Edit::StripAllTxs,
        Edit::SpvPlaceholder,
        Edit::DropTxAndFixRoot,
    ];
    for k in 0..12 {
        v.push(Edit::SignedField(k));
    }
    for _ in 0..4 {
        v.push(Edit::UnsignedField(rng.below(10) as usize));
    }
    v
}

fn edit_name(e: Edit) -> String {
    match e {
        Edit::SignedField(_) => "signed-header-field".into(),
        Edit::UnsignedField(_) => "unsigned-header-field".into(),
        other => format!("{:?}", other),
    }
}

fn touches_tx_list(e: Edit) -> bool {
    matches!(e, Edit::DropTxAndFixRoot | Edit::StripAllTxs | Edit::SpvPlaceholder | Edit::RewriteInputCoordinates | Edit::DropTx | Edit::DuplicateTx | Edit::SwapTxs | Edit::ReverseTxs | Edit::AddForeignTx | Edit::MutateTxAmount | Edit::MutateTxOutputType | Edit::MutateTxData | Edit::ZeroMerkleRootAndDropTx)
}

fn verification_thread(node: &LNode) -> (VerificationThread, tokio::sync::mpsc::Receiver<ConsensusEvent>) {
    let (tx, rx) = tokio::sync::mpsc::channel(16);
    let (stat_tx, _stat_rx) = tokio::sync::mpsc::channel(1000);
    let peers = Arc::new(RwLock::new(saito_core::core::consensus::peers::peer_collection::PeerCollection::default()));
    let sv = |n: &str| StatVariable::new(n.to_string(), STAT_BIN_COUNT, stat_tx.clone());
    (
        VerificationThread {
            sender_to_consensus: tx,
            blockchain_lock: node.chain.clone(),
            peer_lock: peers,
            wallet_lock: node.wallet.clone(),
            processed_txs: sv("a"),
            processed_blocks: sv("b"),
            processed_msgs: sv("c"),
            invalid_txs: sv("d"),
            stat_sender: stat_tx.clone(),
        },
        rx,
    )
}

async fn replay(path: &str, rep: &mut Report) {
    let text = std::fs::read_to_string(path).expect("replay file");
    let v: serde_json::Value = serde_json::from_str(&text).expect("json");
    let r = &v["replay"];
    let actors = actors(5);
    let gp = v["detail"].as_str().unwrap_or("").split("gp=").nth(1).and_then(|x| x.split(']').next()).and_then(|x| x.parse::<u64>().ok()).unwrap_or(20);
    let mut node = LNode::new(&actors[2], &Params::with_gp(gp));
    for b in r["parent_chain_hex"].as_array().unwrap() {
        let bytes = hex::decode(b.as_str().unwrap()).unwrap();
        let res = node.add_bytes(&bytes).await;
        rep.note(&format!("chain block -> {:?}", res.map(|x| x.short())));
    }
    if let Some(sib) = r["sibling_hex"].as_str() {
        let res = node.add_bytes(&hex::decode(sib).unwrap()).await;
        rep.note(&format!("sibling -> {:?}", res.map(|x| x.short())));
    }
    let bytes = hex::decode(r["edited_block_hex"].as_str().unwrap()).unwrap();
    let mut probe = Block::deserialize_from_net(&bytes).unwrap();
    let _ = probe.generate();
    let txh: Vec<String> = probe.transactions.iter().map(|t| format!("{:?}:{}", t.transaction_type, hex::encode(&t.hash_for_signature.unwrap_or([0; 32])[..4]))).collect();
    rep.note(&format!("edited block id {} txs {:?} merkle {} recomputed {}", probe.id, txh, hex::encode(&probe.merkle_root[..4]), hex::encode(&probe.generate_merkle_root(false, false)[..4])));
    let before = node.tip().await;
    let res = node.add_bytes(&bytes).await;
    let after = node.tip().await;
    rep.eval();
    rep.note(&format!("edited -> {:?} tip moved {}", res.as_ref().map(|x| x.short()), before != after));
    if res.map(|x| x.accepted()).unwrap_or(false) {
        rep.violation(v["signature"].as_str().unwrap_or("C06|replay"), "replayed: edited block accepted", r.clone());
    }
}

pub async fn run(ctx: &Ctx, rep: &mut Report) {
    if let Some(path) = &ctx.replay {
        replay(path, rep).await;
        return;
    }
    let mut rng = ctx.rng();
    let rounds = ctx.scale(24, 160) / ctx.shards.max(1) + 1;
    // global: accepted blocks by hash -> tx list (clause b)
    let mut accepted: HashMap<Hash, Vec<Vec<u8>>> = HashMap::new();
    for round in 0..rounds {
        let gp = if round % 2 == 0 { 20 } else { 5 };
        let mut cfg = HistoryCfg::basic(Params::with_gp(gp));
        // every third history is fee-less throughout: there the fee totals of a block do not
        // depend on which of its transactions are present in full
        let fee_less = round % 3 == 2;
        cfg.fee = if fee_less { (0, 0) } else { (100, 30_000) };
        if fee_less {
            rep.count("histories_without_fees");
        }
        cfg.txs = (2, 5);
        // twin outputs: same owner and amount in different issuance transactions
        for v in cfg.issuance.iter_mut() {
            for _ in 0..4 {
                v.push(777_777);
            }
        }
        let mut h = History::new(cfg).await;
        let len = if gp == 5 { 16 } else { 10 };
        let mut prev_block: Option<Block> = None;
        for _ in 0..len {
            let parent = h.head;
            // an ordinary random block plus one payment that spends a "twin" output
            let mut txs = h.pick_txs(&mut rng, &parent);
            {
                let ledger = h.b.store.ledger(&parent);
                let used: Vec<[u8; 59]> = txs.iter().flat_map(|t| t.from.iter().map(|s| ref_key(&s.public_key, s.block_id, s.tx_ordinal, s.slip_index, s.amount, s.slip_type as u8))).collect();
                let a = h.b.actors[1 + rng.below(4) as usize].clone();
                if let Some(o) = ledger.safe_owned_by(&a.pk, gp).into_iter().find(|o| o.amount == 777_777 && !used.contains(&o.key())) {
                    txs.push(build_tx(&a, &[o.clone()], &[(h.b.actors[0].pk, 700_000), (a.pk, if fee_less { 77_777 } else { 70_000 })], h.b.store.get(&parent).ts + 9, &[]));
                    rep.count("twin_spend_included");
                }
            }
            // one fee-less data transaction (what an SPV placeholder can stand in for without
            // disturbing the fee totals)
            txs.push(build_tx(&h.b.actors[3].clone(), &[], &[], h.b.store.get(&parent).ts + 11, b"memo"));
            let with_gt = h.pick_gt(&mut rng, &parent);
            let spec = crate::chain::BlockSpec { gap: 2 * h.cfg.params.heartbeat, txs, with_gt, gt_miner: 1 };
            let step = match h.deliver_spec(&mut rng, &parent, &spec).await {
                Ok(s) => s,
                Err(_) => break,
            };
            let orig = h.b.store.get(&step.hash).block.clone();
            accepted.insert(orig.hash, tx_list_id(&orig));
            rep.count("base_blocks");
            for e in edits(&mut rng) {
                let edited = if e == Edit::RewriteInputCoordinates {
                    let ledger = h.b.store.ledger(&parent);
                    match rewrite_input(&orig, &ledger, gp) {
                        Some(b) => b,
                        None => {
                            if std::env::var("SVH_DEBUG").is_ok() {
                                let tw: Vec<_> = orig.transactions.iter().flat_map(|t| t.from.iter()).filter(|s| s.amount == 777_777).map(|s| (s.block_id, s.tx_ordinal, s.slip_index)).collect();
                                let avail = ledger.utxo.values().filter(|o| o.amount == 777_777).count();
                                eprintln!("no rewrite: block {} twin inputs {:?} twins unspent in ledger {}", orig.id, tw, avail);
                            }
                            continue
                        }
                    }
                } else {
                    match apply(e, &orig, prev_block.as_ref(), &mut rng) {
                        Some(b) => b,
                        None => continue,
                    }
                };
                let bytes = block_bytes(&edited);
                let mut probe = match Block::deserialize_from_net(&bytes) {
                    Ok(b) => b,
                    Err(_) => continue,
                };
                let gen_ok = probe.generate().is_ok();
                let same_hash = probe.hash == orig.hash;
                let name = edit_name(e);
                rep.eval();
                rep.count(&format!("edits.{}", name));
                rep.nontrivial(&format!("{}|{}|{}|{}|{}", gp, step.id, name, same_hash, orig.transactions.len()));
                if same_hash {
                    rep.count("same_hash_edits");
                } else {
                    rep.count("hash_changed_edits");
                }
                let witness = json!({"kind":"block-edit","edit":name,"parent_chain_hex": h.b.store.ancestors(&parent).iter().map(|x| hex::encode(&h.b.store.get(x).bytes)).collect::<Vec<_>>(),"edited_block_hex": hex::encode(&bytes)});
                // a node holding the parent chain but not the original block
                let mut node = h.b.fresh_replica(&parent, &h.b.actors[2].clone()).await;
                let before = node.tip().await;
                let dbg = e == Edit::SpvPlaceholder && fee_less && std::env::var("SVH_DEBUG").is_ok();
                if dbg {
                    crate::logsink::install_stderr(log::LevelFilter::Debug);
                    log::set_max_level(log::LevelFilter::Debug);
                    eprintln!("=== SpvPlaceholder in a fee-less block {} (same hash: {})", step.id, same_hash);
                }
                let r = crate::panics::catch_async(node.add_bytes(&bytes)).await;
                if dbg {
                    eprintln!("=== result {:?}", r.as_ref().map(|x| x.as_ref().map(|y| y.short())).map_err(|p| p.message.clone()));
                    log::set_max_level(log::LevelFilter::Off);
                }
                let res = match r {
                    Ok(x) => x,
                    Err(p) => {
                        rep.violation(&format!("C06|edit={}|panic|{}", name, p.signature()), &format!("add_block panicked on an edited block: {}", p.message), witness.clone());
                        continue;
                    }
                };
                let after = node.tip().await;
                let on_lc = after != before && after.1 == probe.hash;
                if on_lc {
                    let content_equal = tx_list_id(&probe) == tx_list_id(&orig) && probe.creator == orig.creator && probe.signature == orig.signature;
                    if same_hash && touches_tx_list(e) && !content_equal && same_leaves_different_bytes(&probe, &orig) {
                        rep.count("accepted_same_leaves_different_bytes");
                        rep.violation(
                            "C06|clause=same-hash-different-transaction-bytes|cause=tx-hash-omits-input-coordinates",
                            &format!("[gp={}] block {} edited by {} keeps every transaction hash, the merkle root and the block hash, carries different transaction bytes (input block id / ordinal) and is accepted onto the longest chain", gp, step.id, name),
                            witness.clone(),
                        );
                    } else if same_hash && touches_tx_list(e) && !content_equal {
                        rep.violation(
                            &format!("C06|clause=edited-tx-list-accepted-under-same-hash|edit={}", name),
                            &format!("[gp={}] block {} with its transaction list edited ({}) keeps hash {} and is accepted onto the longest chain", gp, step.id, name, crate::monitors::short(&orig.hash)),
                            witness.clone(),
                        );
                    } else if matches!(e, Edit::FlipSignature | Edit::ZeroSignature | Edit::ReplaceCreator) {
                        rep.violation(
                            &format!("C06|clause=bad-creator-signature-accepted|edit={}", name),
                            &format!("[gp={}] block {} with edit {} is accepted onto the longest chain", gp, step.id, name),
                            witness.clone(),
                        );
                    } else if matches!(e, Edit::DropTxAndFixRoot) {
                        rep.violation(
                            "C06|clause=content-and-root-rewritten-without-resigning-accepted",
                            &format!("[gp={}] block {} with its last transaction removed and the header's merkle root rewritten to match (creator signature untouched) is accepted onto the longest chain", gp, step.id),
                            witness.clone(),
                        );
                    } else if matches!(e, Edit::SignedField(_)) {
                        rep.violation(
                            &format!("C06|clause=signed-field-edit-accepted|edit={}", name),
                            &format!("[gp={}] block {} with a signed header field changed (no re-signing) is accepted", gp, step.id),
                            witness.clone(),
                        );
                    } else if matches!(e, Edit::UnsignedField(_)) {
                        rep.count("observation.unsigned_field_edit_accepted");
                    } else if matches!(e, Edit::ZeroMerkleRoot) {
                        // same content, the root is recomputed: identity unchanged
                        rep.count("observation.zero_merkle_root_same_content_accepted");
                    }
                    // clause (b): two accepted blocks with one hash have equal tx lists
                    if let Some(list) = accepted.get(&probe.hash) {
                        if list != &tx_list_id(&probe) && !same_leaves_different_bytes(&probe, &orig) {
                            rep.violation(
                                &format!("C06|clause=two-accepted-blocks-one-hash|edit={}", name),
                                &format!("[gp={}] two blocks accepted under hash {} have different transaction lists", gp, crate::monitors::short(&probe.hash)),
                                witness.clone(),
                            );
                        }
                    }
                } else {
                    rep.count("refused_or_not_on_lc");
                    // stored under the original hash although refused for the longest chain?
                    let stored_same_hash = {
                        let chain = node.chain.read().await;
                        chain.blocks.contains_key(&orig.hash)
                    };
                    if same_hash && stored_same_hash && touches_tx_list(e) {
                        rep.count("observation.edited_copy_stored_under_original_hash");
                    }
                    let _ = res;
                }
                // verify_block gate: advertised (hash, id) of the ORIGINAL with the edited buffer
                if gen_ok {
                    let (mut vt, mut rx) = verification_thread(&node);
                    let r = crate::panics::catch_async(vt.verify_block(&bytes, 1, orig.hash, orig.id)).await;
                    if r.is_ok() {
                        if let Ok(ConsensusEvent::BlockFetched { block, .. }) = rx.try_recv() {
                            rep.count("verify_block_forwarded");
                            if touches_tx_list(e) && tx_list_id(&block) != tx_list_id(&orig) {
                                rep.count("observation.verify_block_forwards_edited_tx_list_under_original_hash");
                            }
                        } else {
                            rep.count("verify_block_refused");
                        }
                    }
                }
            }
            // ---- side-chain offering: the node's tip is an honest sibling, so the edited copy
            // does not extend the longest chain and is only stored. A stored copy under the
            // original hash makes the node refuse the real block as a duplicate.
            {
                let spec = crate::chain::BlockSpec { gap: 2 * h.cfg.params.heartbeat + 333, txs: h.pick_txs(&mut rng, &parent), with_gt: crate::history::density_ok(&h.b, &parent, false) == false || orig.has_golden_ticket, gt_miner: 1 };
                if let Ok((sib, pnode)) = h.b.produce(&mut rng, &parent, &spec).await {
                    h.b.keep_producer(parent, pnode);
                    let sib_bytes = block_bytes(&sib);
                    for e in [Edit::SwapTxs, Edit::DropTx, Edit::MutateTxAmount, Edit::MutateTxOutputType, Edit::FlipSignature, Edit::ZeroSignature, Edit::DuplicateTx, Edit::StripAllTxs, Edit::SpvPlaceholder, Edit::DropTxAndFixRoot] {
                        let edited = match apply(e, &orig, prev_block.as_ref(), &mut rng) {
                            Some(b) => b,
                            None => continue,
                        };
                        let bytes = block_bytes(&edited);
                        let mut probe = Block::deserialize_from_net(&bytes).unwrap();
                        if probe.generate().is_err() || probe.hash != orig.hash {
                            continue;
                        }
                        // an edit that leaves the content unchanged (e.g. swapping two byte-identical
                        // rebroadcast transactions) is the original block itself
                        if tx_list_id(&probe) == tx_list_id(&orig) && probe.signature == orig.signature && probe.creator == orig.creator {
                            rep.count("side_offers_edit_was_identity");
                            continue;
                        }
                        let name = edit_name(e);
                        let mut node = h.b.fresh_replica(&parent, &h.b.actors[2].clone()).await;
                        if node.add_bytes(&sib_bytes).await != Some(Added::Ok(true)) {
                            rep.count("sibling_not_accepted");
                            break;
                        }
                        rep.eval();
                        rep.count("side_offers");
                        rep.nontrivial(&format!("side|{}|{}|{}", gp, step.id, name));
                        let r = crate::panics::catch_async(node.add_bytes(&bytes)).await;
                        let stored = { node.chain.read().await.blocks.contains_key(&orig.hash) };
                        if let Ok(Some(res)) = &r {
                            if (res.accepted() || stored) && same_leaves_different_bytes(&probe, &orig) {
                                rep.count("stored_same_leaves_different_bytes");
                                rep.violation(
                                    "C06|clause=same-hash-different-transaction-bytes|cause=tx-hash-omits-input-coordinates",
                                    &format!("[gp={}] a copy of block {} ({}) with identical transaction hashes but different transaction bytes is stored under the original hash", gp, step.id, name),
                                    json!({"kind":"block-edit-side","edit":name,"parent_chain_hex": h.b.store.ancestors(&parent).iter().map(|x| hex::encode(&h.b.store.get(x).bytes)).collect::<Vec<_>>(),"sibling_hex": hex::encode(&sib_bytes),"edited_block_hex": hex::encode(&bytes)}),
                                );
                            } else if res.accepted() || stored {
                                let real = node.add_bytes(&h.b.store.get(&step.hash).bytes.clone()).await;
                                rep.violation(
                                    &format!("C06|clause=edited-copy-stored-under-original-hash|edit={}", name),
                                    &format!("[gp={}] a copy of block {} with edit {} (same hash) offered while a sibling is the tip is accepted as a side block ({}); the real block is then answered with {:?}", gp, step.id, name, res.short(), real.map(|x| x.short())),
                                    json!({"kind":"block-edit-side","edit":name,"parent_chain_hex": h.b.store.ancestors(&parent).iter().map(|x| hex::encode(&h.b.store.get(x).bytes)).collect::<Vec<_>>(),"sibling_hex": hex::encode(&sib_bytes),"edited_block_hex": hex::encode(&bytes)}),
                                );
                            } else {
                                rep.count("side_offers_refused");
                            }
                        }
                    }
                }
            }
            prev_block = Some(orig);
        }
    }
    rep.sample(json!({"edit":"SwapTxs","meaning":"two neighbouring transactions of a valid block exchanged, header untouched: the hash does not change; a node holding the parent chain (but not the original) must refuse it"}));
}
