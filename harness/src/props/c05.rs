//! C05 — fork choice: the tip only moves to a strictly longer, heavy-enough, valid chain with
//! enough golden tickets; such a chain is adopted when its last block arrives; height never
//! decreases; a block arriving before its parent changes neither tip nor index.
use std::collections::{HashMap, HashSet};

use serde_json::json;

use crate::chain::{BlockSpec, Builder};
use crate::corpus::default_issuance;
use crate::monitors::{index_of, short};
use crate::props::c03::{parent_vectors, permutations};
use crate::props::Ctx;
use crate::report::Report;
use crate::rng::Rng;
use crate::world::*;

pub struct Tree {
    pub parents: Vec<usize>,
    pub hashes: Vec<Hash>,
    pub gt: Vec<bool>,
    pub gaps: Vec<u64>,
}

/// producer that does not enforce golden-ticket density (browser mode bypasses the rule), so
/// that chains violating it can be built with the real Block::create
fn lenient(params: &Params) -> Params {
    let mut p = params.clone();
    p.browser = true;
    p
}

pub async fn build(b: &mut Builder, rng: &mut Rng, parents: &[usize], gt: &[bool], gaps: &[u64]) -> Option<Tree> {
    let mut hashes = vec![b.genesis];
    for (i, p) in parents.iter().enumerate() {
        let parent = hashes[*p];
        let mut exclude = vec![];
        let from = 1 + (i % (b.actors.len() - 1));
        let mut txs = vec![];
        if let Some(tx) = b.payment(rng, &parent, from, (i + 2) % b.actors.len(), 100 + i as u64, 10, &mut exclude) {
            txs.push(tx);
        } else {
            txs.push(build_tx(&b.actors[from], &[], &[], b.store.get(&parent).ts + 3 + i as u64, b"noop"));
        }
        let spec = BlockSpec { gap: gaps[i], txs, with_gt: gt[i], gt_miner: i % b.actors.len() };
        match b.extend(rng, &parent, &spec).await {
            Ok(h) => hashes.push(h),
            Err(e) => {
                eprintln!("C05 tree build failed at node {}: {}", i + 1, e);
                return None;
            }
        }
    }
    Some(Tree { parents: parents.to_vec(), hashes, gt: gt.to_vec(), gaps: gaps.to_vec() })
}

pub struct Oracle<'a> {
    pub b: &'a Builder,
    valid_memo: HashMap<Hash, bool>,
}

impl<'a> Oracle<'a> {
    pub fn new(b: &'a Builder) -> Oracle<'a> {
        Oracle { b, valid_memo: HashMap::new() }
    }
    /// golden-ticket density of the six-block window ending at `h` (rule as documented:
    /// at least two tickets once six blocks exist, one when only five exist)
    pub fn dense(&self, h: &Hash) -> bool {
        let anc = self.b.store.ancestors(h);
        let n = anc.len();
        let prev: Vec<&Hash> = anc.iter().rev().skip(1).take(5).collect();
        let depth = prev.len();
        if depth < 4 {
            return true;
        }
        let found = prev.iter().filter(|x| self.b.store.get(x).has_gt).count() + self.b.store.get(h).has_gt as usize;
        let required = 2usize.saturating_sub(6usize.saturating_sub(depth + 1));
        let _ = n;
        found >= required
    }
    /// valid by construction, parent valid, window dense
    pub fn valid(&mut self, h: &Hash) -> bool {
        if let Some(v) = self.valid_memo.get(h) {
            return *v;
        }
        let s = self.b.store.get(h);
        let v = s.valid && self.dense(h) && (s.prev == [0; 32] || (self.b.store.has(&s.prev) && self.valid(&s.prev.clone())));
        self.valid_memo.insert(*h, v);
        v
    }
    pub fn common_ancestor(&self, a: &Hash, b: &Hash) -> Hash {
        let aa: HashSet<Hash> = self.b.store.ancestors(a).into_iter().collect();
        let mut cur = *b;
        loop {
            if aa.contains(&cur) {
                return cur;
            }
            cur = self.b.store.get(&cur).prev;
            if cur == [0; 32] {
                return self.b.genesis;
            }
        }
    }
    /// (length, cumulative burn fee) of the segment after `from` up to `to`
    pub fn segment(&self, from: &Hash, to: &Hash) -> (u64, u128) {
        let mut len = 0;
        let mut bf: u128 = 0;
        let mut cur = *to;
        while &cur != from {
            let s = self.b.store.get(&cur);
            len += 1;
            bf += s.block.burnfee as u128;
            cur = s.prev;
            if cur == [0; 32] {
                break;
            }
        }
        (len, bf)
    }
}

pub struct CaseResult {
    pub decisions: u64,
}

/// deliver `order` (indices into tree.hashes, 1-based) to a fresh full node and judge every step
pub async fn run_case(b: &mut Builder, tree: &Tree, order: &[usize], sut_params: &Params, family: &str, rep: &mut Report) -> CaseResult {
    let mut node = LNode::new(&b.actors[1], sut_params);
    node.add_bytes(&b.store.get(&b.genesis).bytes.clone()).await;
    let mut delivered: HashSet<Hash> = HashSet::new();
    delivered.insert(b.genesis);
    let mut res = CaseResult { decisions: 0 };
    let mut tainted = false;
    let mut trace: Vec<String> = vec![];
    rep.eval();
    for (step, i) in order.iter().enumerate() {
        let x = tree.hashes[*i];
        let bytes = b.store.get(&x).bytes.clone();
        let parent = b.store.get(&x).prev;
        let (t_id, t_hash) = node.tip().await;
        let index_before = { index_of(&*node.chain.read().await, t_id + 8) };
        let parent_held = node.chain.read().await.blocks.contains_key(&parent);
        let witness = |b: &Builder| {
            json!({"kind":"fork-choice","family":family,"params":sut_params.describe(),"parents":tree.parents,"golden_tickets":tree.gt,"gaps":tree.gaps,"order":order,"failed_at_step":step,
                   "genesis_hex": hex::encode(&b.store.get(&b.genesis).bytes),
                   "blocks_hex": tree.hashes.iter().skip(1).map(|h| hex::encode(&b.store.get(h).bytes)).collect::<Vec<_>>()})
        };
        let r = match crate::panics::catch_async(node.add_bytes(&bytes)).await {
            Ok(r) => r,
            Err(p) => {
                let sig = if tainted {
                    "C05|clause=state-damaged-after-parentless-block".to_string()
                } else {
                    format!("C05|clause=panic|family={}|{}", family, p.signature())
                };
                rep.violation(&sig, &format!("[{}] add_block panicked: {} ({:?})", family, p.message, trace), witness(b));
                return res;
            }
        };
        trace.push(format!("{}:{}", i, r.as_ref().map(|x| x.short()).unwrap_or("?")));
        let (n_id, n_hash) = node.tip().await;
        if !parent_held {
            // ---- out-of-order clause: neither tip nor index may change
            rep.count("parentless_deliveries");
            let index_after = { index_of(&*node.chain.read().await, t_id + 8) };
            if n_hash != t_hash || index_after != index_before {
                let what = if n_hash != t_hash { "tip-moved" } else { "index-changed" };
                rep.violation(
                    &format!("C05|clause=block-before-parent|what={}|loaded={}", what, sut_params.loading_completed),
                    &format!("[{}] block {} (id {}) delivered before its parent ({:?}): tip {}:{} -> {}:{}, index changed: {}", family, i, b.store.get(&x).id, trace, t_id, short(&t_hash), n_id, short(&n_hash), index_after != index_before),
                    witness(b),
                );
                return res;
            }
            if !sut_params.loading_completed {
                tainted = true;
            }
            delivered.insert(x);
            continue;
        }
        if tainted {
            rep.count("steps_not_judged_after_parentless_block");
            delivered.insert(x);
            continue;
        }
        if delivered.contains(&x) {
            // duplicate: nothing may move
            if n_hash != t_hash {
                rep.violation(&format!("C05|clause=duplicate-moved-tip|family={}", family), &format!("duplicate delivery moved the tip ({:?})", trace), witness(b));
            }
            continue;
        }
        delivered.insert(x);
        // ---- decision
        let mut o = Oracle::new(b);
        let ancestry_complete = b.store.ancestors(&x).iter().all(|a| delivered.contains(a));
        if !ancestry_complete || !b.store.has(&t_hash) {
            rep.count("steps_without_decision");
            continue;
        }
        let ca = o.common_ancestor(&t_hash, &x);
        let (new_len, new_bf) = o.segment(&ca, &x);
        let (old_len, old_bf) = o.segment(&ca, &t_hash);
        let valid = o.valid(&x);
        let should_adopt = valid && new_len > old_len && new_bf >= old_bf;
        res.decisions += 1;
        rep.count("decisions");
        rep.count(if should_adopt { "decisions.adopt" } else { "decisions.stay" });
        if old_len > 0 && should_adopt {
            rep.count("decisions.reorg_expected");
        }
        if old_len > 0 && new_len > old_len && new_bf == old_bf {
            rep.count("decisions.longer_with_exactly_equal_burn_fee");
        }
        let moved = n_hash != t_hash;
        if moved {
            rep.count("tip_moves");
            // safety clauses, each on its own
            if n_hash != x {
                rep.violation(&format!("C05|clause=tip-moved-elsewhere|family={}", family), &format!("tip moved to a block other than the delivered one ({:?})", trace), witness(b));
                return res;
            }
            if n_id <= t_id {
                rep.violation(&format!("C05|clause=height-not-increased|family={}", family), &format!("[{}] tip height {} -> {} ({:?})", family, t_id, n_id, trace), witness(b));
                return res;
            }
            if new_len <= old_len {
                rep.violation(&format!("C05|clause=not-strictly-longer|family={}", family), &format!("[{}] adopted segment of {} blocks over {} ({:?})", family, new_len, old_len, trace), witness(b));
                return res;
            }
            if new_bf < old_bf {
                rep.violation(&format!("C05|clause=lighter-chain-adopted|family={}", family), &format!("[{}] adopted segment burn fee {} < old segment {} ({:?})", family, new_bf, old_bf, trace), witness(b));
                return res;
            }
            // every block of the adopted segment valid and dense
            let mut cur = x;
            while cur != ca {
                let s = b.store.get(&cur);
                if !s.valid {
                    rep.violation(&format!("C05|clause=invalid-block-adopted|family={}", family), &format!("[{}] adopted chain contains block {} made invalid by the generator ({:?})", family, s.id, trace), witness(b));
                    return res;
                }
                if !o.dense(&cur) {
                    rep.violation(
                        &format!("C05|clause=golden-ticket-density|family={}", family),
                        &format!("[{}] adopted chain has fewer than two golden tickets in the six-block window ending at block {} (tickets {:?}, order {:?})", family, s.id, tree.gt, trace),
                        witness(b),
                    );
                    return res;
                }
                cur = s.prev;
            }
        }
        if should_adopt && !moved {
            rep.violation(
                &format!("C05|clause=better-chain-not-adopted|family={}", family),
                &format!("[{}] block {} completes a strictly longer ({} vs {}), heavy enough ({} vs {}), valid, dense chain but the tip stays at {} (result {:?}; {:?})", family, i, new_len, old_len, new_bf, old_bf, t_id, r.map(|x| x.short()), trace),
                witness(b),
            );
            return res;
        }
        if !should_adopt && moved {
            // already reported by one of the safety clauses above unless the reason is validity of x's own window
            if !valid {
                rep.violation(&format!("C05|clause=invalid-chain-adopted|family={}", family), &format!("[{}] tip moved onto a chain the oracle considers invalid ({:?})", family, trace), witness(b));
                return res;
            }
        }
    }
    res
}

/// all linear extensions (parent-first orders) of the tree, capped
fn topological_orders(parents: &[usize], cap: usize) -> Vec<Vec<usize>> {
    let n = parents.len();
    permutations(n)
        .into_iter()
        .map(|p| p.into_iter().map(|i| i + 1).collect::<Vec<usize>>())
        .filter(|ord| {
            let mut seen = vec![false; n + 1];
            seen[0] = true;
            for i in ord {
                if !seen[parents[*i - 1]] {
                    return false;
                }
                seen[*i] = true;
            }
            true
        })
        .take(cap)
        .collect()
}

pub async fn run(ctx: &Ctx, rep: &mut Report) {
    let mut rng = ctx.rng();
    let hb = Params::default().heartbeat;
    let n_actors = 4;
    let mut work = 0u64;
    let gap_choices = [2 * hb, 3 * hb, 40 * hb];
    // ---- A. exhaustive small trees, parent-first orders, burn-fee profiles by gap mask
    rep.exhaustive = true;
    let max_n = ctx.scale(5, 6) as usize;
    for loaded in [false, true] {
        let mut sut_params = Params::with_gp(50);
        sut_params.loading_completed = loaded;
        for n in 1..=max_n {
            for parents in parent_vectors(n) {
                for mask in 0..(if ctx.thorough { 4u64 } else { 3 }) {
                    work += 1;
                    if !ctx.mine(work) {
                        continue;
                    }
                    let mut b = Builder::new(&lenient(&sut_params), n_actors, &default_issuance(n_actors)).await;
                    // golden tickets on even ids; gaps: profile depends on mask and node
                    let mut ids = vec![1u64];
                    for p in &parents {
                        ids.push(ids[*p] + 1);
                    }
                    let gt: Vec<bool> = (1..=n).map(|i| ids[i] % 2 == 0).collect();
                    let gaps: Vec<u64> = (0..n).map(|i| gap_choices[((mask as usize) * 7 + i * (1 + mask as usize)) % 3]).collect();
                    let tree = match build(&mut b, &mut rng, &parents, &gt, &gaps).await {
                        Some(t) => t,
                        None => continue,
                    };
                    rep.count("trees");
                    for order in topological_orders(&parents, 200) {
                        rep.nontrivial(&format!("A|{}|{:?}|{}|{:?}", loaded, parents, mask, order));
                        run_case(&mut b, &tree, &order, &sut_params, "small-trees", rep).await;
                        rep.count("family.small-trees");
                    }
                    // out-of-order deliveries: every permutation that is not parent-first (sampled)
                    let mut perms = permutations(n);
                    rng.shuffle(&mut perms);
                    for p in perms.into_iter().take(6) {
                        let order: Vec<usize> = p.into_iter().map(|i| i + 1).collect();
                        rep.nontrivial(&format!("A-ooo|{}|{:?}|{}|{:?}", loaded, parents, mask, order));
                        run_case(&mut b, &tree, &order, &sut_params, "out-of-order", rep).await;
                        rep.count("family.out-of-order");
                    }
                }
            }
        }
    }
    // ---- B. targeted families on longer chains
    let rounds = ctx.scale(240, 2400) / ctx.shards.max(1) + 1;
    for r in 0..rounds {
        let mut sut_params = Params::with_gp(50);
        sut_params.loading_completed = r % 2 == 0;
        let trunk = 2 + rng.below(4) as usize;
        // trunk with alternating tickets, then two branches
        let mut parents: Vec<usize> = (0..trunk).collect();
        let mut gt: Vec<bool> = (0..trunk).map(|i| (i + 2) % 2 == 0).collect();
        let mut gaps: Vec<u64> = vec![2 * hb; trunk];
        let family;
        match r % 6 {
            0 => {
                // equal length ties: the second branch must never displace the first
                family = "equal-length";
                let k = 1 + rng.below(3) as usize;
                let mut a = trunk;
                let mut c = trunk;
                for j in 0..k {
                    parents.push(a);
                    a = parents.len();
                    gt.push((trunk + j) % 2 == 1);
                    gaps.push(2 * hb);
                }
                for j in 0..k {
                    parents.push(c);
                    c = parents.len();
                    gt.push((trunk + j) % 2 == 1);
                    gaps.push(2 * hb + 500);
                }
            }
            1 => {
                // longer but lighter: the longer branch has huge gaps (burn fee collapses)
                family = "longer-but-lighter";
                let k = 1 + rng.below(3) as usize;
                let mut a = trunk;
                let mut c = trunk;
                for j in 0..k {
                    parents.push(a);
                    a = parents.len();
                    gt.push((trunk + j) % 2 == 1);
                    gaps.push(hb * 2);
                }
                for j in 0..(k + 1) {
                    parents.push(c);
                    c = parents.len();
                    gt.push((trunk + j) % 2 == 1);
                    gaps.push(hb * 4000);
                }
            }
            2 => {
                // longer and heavier: must be adopted
                family = "longer-and-heavier";
                let k = 1 + rng.below(3) as usize;
                let mut a = trunk;
                let mut c = trunk;
                for j in 0..k {
                    parents.push(a);
                    a = parents.len();
                    gt.push((trunk + j) % 2 == 1);
                    gaps.push(hb * 30);
                }
                for j in 0..(k + 1 + rng.below(2) as usize) {
                    parents.push(c);
                    c = parents.len();
                    gt.push((trunk + j) % 2 == 1);
                    gaps.push(hb * 2);
                }
            }
            3 => {
                // side chain without enough golden tickets in its tip window
                family = "density-tip-window";
                let mut a = trunk;
                let mut c = trunk;
                let k = 5 + rng.below(2) as usize;
                for j in 0..k {
                    parents.push(a);
                    a = parents.len();
                    gt.push((trunk + j) % 2 == 1);
                    gaps.push(hb * 2);
                }
                for j in 0..(k + 1) {
                    parents.push(c);
                    c = parents.len();
                    gt.push(j == 0); // one ticket at the start, none afterwards
                    gaps.push(hb * 2);
                }
            }
            5 => {
                // strictly longer with EXACTLY the same accumulated burn fee: the burn fee of a
                // block is its parent's times sqrt(heartbeat / gap), so gaps of 4, 4 heartbeats
                // (factors 1/2, 1/2: 0.5 + 0.25) and of 6.25, 2.56, 6.25 heartbeats (factors 2/5,
                // 5/8, 2/5: 0.4 + 0.25 + 0.1) give equal sums; "at least as much" must adopt
                family = "longer-with-equal-burn-fee";
                let mut a = trunk;
                let mut c = trunk;
                for (j, g) in [hb * 4, hb * 4].iter().enumerate() {
                    parents.push(a);
                    a = parents.len();
                    gt.push((trunk + j) % 2 == 1);
                    gaps.push(*g);
                }
                for (j, g) in [hb * 25 / 4, hb * 64 / 25, hb * 25 / 4].iter().enumerate() {
                    parents.push(c);
                    c = parents.len();
                    gt.push((trunk + j) % 2 == 1);
                    gaps.push(*g);
                }
            }
            _ => {
                // side chain whose MIDDLE window lacks tickets while the tip window has them
                family = "density-middle-window";
                let mut a = trunk;
                let mut c = trunk;
                let k = 10;
                for j in 0..k {
                    parents.push(a);
                    a = parents.len();
                    gt.push((trunk + j) % 2 == 1);
                    gaps.push(hb * 2);
                }
                let pattern = [true, false, false, false, false, false, false, true, false, true, true];
                for j in 0..(k + 1) {
                    parents.push(c);
                    c = parents.len();
                    gt.push(pattern[j % pattern.len()]);
                    gaps.push(hb * 2);
                }
            }
        }
        let mut b = Builder::new(&lenient(&sut_params), n_actors, &default_issuance(n_actors)).await;
        b.max_producers = 3;
        let tree = match build(&mut b, &mut rng, &parents, &gt, &gaps).await {
            Some(t) => t,
            None => {
                rep.count("targeted_not_built");
                continue;
            }
        };
        // delivery: trunk, then branch A completely, then branch B (and the reverse order of the
        // two branches), always parent-first
        let n = parents.len();
        let in_order: Vec<usize> = (1..=n).collect();
        let a_len = {
            // nodes of branch A are the first run after the trunk
            let mut k = 0;
            let mut cur = trunk;
            for i in trunk..n {
                if parents[i] == cur {
                    k += 1;
                    cur = i + 1;
                } else {
                    break;
                }
            }
            k
        };
        let mut b_first: Vec<usize> = (1..=trunk).collect();
        b_first.extend((trunk + a_len + 1)..=n);
        b_first.extend((trunk + 1)..=(trunk + a_len));
        for (oi, order) in [in_order, b_first].iter().enumerate() {
            rep.nontrivial(&format!("B|{}|{}|{:?}|{:?}|{}", family, sut_params.loading_completed, parents, gt, oi));
            run_case(&mut b, &tree, order, &sut_params, family, rep).await;
            rep.count(&format!("family.{}", family));
        }
    }
    // ---- C. a longer side chain whose block at position `bad` is invalid (header field off,
    // re-signed; the blocks above it re-pointed and re-signed): the node attempts the
    // reorganisation when the chain gets longer, fails, and must be back on its own tip - the
    // tip height never decreases and the tip only moves to a valid, strictly longer chain
    {
        use crate::props::c04::{corrupt_with, repoint, Kind};
        use saito_core::core::consensus::block::Block;
        let mut cell = 0u64;
        for loaded in [true, false] {
            for (trunk, main, side) in [(2usize, 2usize, 3usize), (1, 3, 4), (2, 1, 2), (3, 2, 4)] {
                for bad in [1usize, 2] {
                    for kind in [Kind::Difficulty, Kind::Treasury, Kind::BurnFee] {
                        cell += 1;
                        if !ctx.mine(cell) || bad > side {
                            continue;
                        }
                        let mut params = Params::with_gp(20);
                        params.loading_completed = loaded;
                        let mut b = Builder::new(&params, n_actors, &default_issuance(n_actors)).await;
                        let creator = b.actors[0].clone();
                        let genesis = b.genesis;
                        let fork = b.grow(&mut rng, &genesis, trunk, 1, 10).await;
                        let main_tip = b.grow(&mut rng, &fork, main, 1, 12).await;
                        let side_tip = b.grow(&mut rng, &fork, side, 2, 14).await;
                        let side_hashes: Vec<Hash> = b.store.ancestors(&side_tip).into_iter().filter(|h| b.store.get(h).id > b.store.get(&fork).id).collect();
                        let mut side_blocks: Vec<Block> = side_hashes.iter().map(|h| b.store.get(h).block.clone()).collect();
                        if !corrupt_with(&mut side_blocks[bad - 1], kind, &creator, &mut rng, None) {
                            continue;
                        }
                        for i in bad..side_blocks.len() {
                            let parent_hash = side_blocks[i - 1].hash;
                            repoint(&mut side_blocks[i], parent_hash, &creator);
                        }
                        let mut node = LNode::new(&b.actors[1], &params);
                        for h in b.store.ancestors(&main_tip) {
                            let bytes = b.store.get(&h).bytes.clone();
                            node.add_bytes(&bytes).await;
                        }
                        let own = node.tip().await;
                        if own.1 != main_tip {
                            continue;
                        }
                        rep.eval();
                        rep.count("family.longer-with-invalid-block");
                        rep.nontrivial(&format!("C|{}|{}|{}|{}|{}|{:?}", loaded, trunk, main, side, bad, kind));
                        let mut lowest = own.0;
                        for (i, blk) in side_blocks.iter().enumerate() {
                            let r = crate::panics::catch_async(node.add_bytes(&block_bytes(blk))).await;
                            if let Err(p) = r {
                                rep.violation(&format!("C05|clause=panic|family=longer-with-invalid-block|{}", p.signature()), &format!("side block {} of {}: {}", i + 1, side, p.message), json!({"kind":"invalid-side-chain","trunk":trunk,"main":main,"side":side,"bad":bad}));
                                break;
                            }
                            let (tid, _) = node.tip().await;
                            lowest = lowest.min(tid);
                        }
                        let (tid, th) = node.tip().await;
                        if lowest < own.0 || th != main_tip {
                            rep.violation(
                                &format!("C05|clause=tip-left-the-valid-chain-for-an-invalid-one|bad-position={}", if bad == 1 { "first" } else { "later" }),
                                &format!("[loaded={} fault={:?}] node on a valid chain of height {} received a side chain of {} blocks off height {} whose block {} is invalid: lowest tip height seen {}, final tip {} ({})", loaded, kind, own.0, side, b.store.get(&fork).id, bad, lowest, tid, short(&th)),
                                json!({"kind":"invalid-side-chain","trunk":trunk,"main":main,"side":side,"bad":bad,"loaded":loaded}),
                            );
                        }
                    }
                }
            }
        }
    }
    rep.sample(json!({"family":"density-middle-window","meaning":"after a common trunk the main branch alternates golden tickets; the side branch (one block longer) has tickets only at its start and end so that a six-block window in its middle has fewer than two; delivered branch after branch, parent first; the oracle walks every window of the adopted segment"}));
}
