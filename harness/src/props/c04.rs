//! C04 — a rejected block leaves no trace; block processing terminates in bounded steps.
use saito_core::core::consensus::block::Block;
use saito_core::core::util::verif;
use serde_json::json;

use crate::chain::{BlockSpec, Builder};
use crate::corpus::default_issuance;
use crate::monitors::{diff, diff_kinds, snapshot_of};
use crate::props::Ctx;
use crate::report::Report;
use crate::rng::Rng;
use crate::world::*;

#[derive(Clone, Copy, Debug, PartialEq, Eq)]
pub enum Kind {
    BadSignature,
    BurnFee,
    Unpaid,
    Treasury,
    Difficulty,
    BadTxSignature,
    GoldenTicketTarget,
    Timestamp,
    /// a payment from the shared history included again: its inputs were spent below the fork
    /// point, so nothing the candidate chain or the restored chain does can make them spendable
    ReplayedSpend,
}

pub const KINDS: [Kind; 8] = [
    Kind::BadSignature,
    Kind::BurnFee,
    Kind::Unpaid,
    Kind::Treasury,
    Kind::Difficulty,
    Kind::BadTxSignature,
    Kind::Timestamp,
    Kind::ReplayedSpend,
];

/// re-derive merkle root (when txs changed), pre-hash, signature and hash with the creator's key
pub fn reseal(block: &mut Block, creator: &Actor, txs_changed: bool) {
    if txs_changed {
        block.merkle_root = [0; 32];
        let _ = block.generate();
        block.merkle_root = block.generate_merkle_root(false, false);
    }
    block.generate_pre_hash();
    block.sign(&creator.sk);
    let _ = block.generate();
}

/// make `block` invalid in the given way; returns false when the edit does not apply
pub fn corrupt(block: &mut Block, kind: Kind, creator: &Actor, rng: &mut Rng) -> bool {
    corrupt_with(block, kind, creator, rng, None)
}

/// `donor`: a payment taken from a block below the fork point (for Kind::ReplayedSpend)
pub fn corrupt_with(block: &mut Block, kind: Kind, creator: &Actor, rng: &mut Rng, donor: Option<&saito_core::core::consensus::transaction::Transaction>) -> bool {
    match kind {
        Kind::ReplayedSpend => match donor {
            Some(tx) => {
                let at = block.transactions.iter().position(|t| t.transaction_type != saito_core::core::consensus::transaction::TransactionType::Normal).unwrap_or(block.transactions.len());
                block.transactions.insert(at, tx.clone());
                reseal(block, creator, true);
            }
            None => return false,
        },
        Kind::BadSignature => {
            block.signature[7] ^= 0x20;
            let _ = block.generate();
        }
        Kind::BurnFee => {
            block.burnfee += 1;
            reseal(block, creator, false);
        }
        Kind::Unpaid => {
            block.previous_block_unpaid += 1;
            reseal(block, creator, false);
        }
        Kind::Treasury => {
            block.treasury += 1;
            reseal(block, creator, false);
        }
        Kind::Difficulty => {
            block.difficulty += 1;
            reseal(block, creator, false);
        }
        Kind::BadTxSignature => {
            // valid only as a C04 case when block validation refuses forged transactions
            let idx = block
                .transactions
                .iter()
                .position(|t| t.transaction_type == saito_core::core::consensus::transaction::TransactionType::Normal && t.from.iter().any(|s| s.amount > 0));
            match idx {
                Some(i) => {
                    block.transactions[i].signature[3] ^= 0x10;
                    reseal(block, creator, true);
                }
                None => return false,
            }
        }
        Kind::GoldenTicketTarget => {
            let idx = block.transactions.iter().position(|t| t.is_golden_ticket());
            match idx {
                Some(i) => {
                    // ticket for a different target block
                    let gt = mine_gt(rng, rng.clone().hash32(), 0, &creator.pk);
                    let mut tx = gt_tx(&gt, creator);
                    tx.generate(&creator.pk, 0, 0);
                    block.transactions[i] = tx;
                    reseal(block, creator, true);
                }
                None => return false,
            }
        }
        Kind::Timestamp => {
            block.timestamp = block.timestamp.saturating_sub(3 * 24 * 3600 * 1000);
            reseal(block, creator, false);
        }
    }
    true
}

/// re-point a block to a new parent hash and re-sign it
pub fn repoint(block: &mut Block, parent: Hash, creator: &Actor) {
    block.previous_block_hash = parent;
    reseal(block, creator, false);
}

#[derive(Clone, Copy)]
pub struct Scenario {
    pub trunk: usize,
    pub competitor: usize,
    pub candidate: usize,
    /// 1-based position of the offending block in the candidate chain
    pub bad_pos: usize,
    pub kind: Kind,
    /// the node also holds a branch off the fork point that is one block longer than its chain
    /// but lighter (huge gaps), so it is indexed and not adopted: a sibling at tip + 1
    pub lighter_side: bool,
}

impl Scenario {
    pub fn describe(&self) -> String {
        let pos = if self.bad_pos == 1 && self.candidate == 1 {
            "only"
        } else if self.bad_pos == 1 {
            "first"
        } else if self.bad_pos == self.candidate {
            "last"
        } else {
            "middle"
        };
        format!("trunk={} competitor={} candidate={} bad={}({}) kind={:?}{}", self.trunk, self.competitor, self.candidate, self.bad_pos, pos, self.kind, if self.lighter_side { " lighter-side-branch" } else { "" })
    }
    pub fn pos_class(&self) -> &'static str {
        if self.candidate == 1 {
            "only"
        } else if self.bad_pos == 1 {
            "first"
        } else if self.bad_pos == self.candidate {
            "last"
        } else {
            "middle"
        }
    }
}

async fn honest_chain(b: &mut Builder, rng: &mut Rng, from: Hash, n: usize, salt: usize, sut_actor: usize) -> Vec<Hash> {
    let mut out = vec![];
    let mut cur = from;
    for i in 0..n {
        let id = b.store.get(&cur).id + 1;
        let mut exclude = vec![];
        let mut txs = vec![];
        // payments into and out of the SUT's wallet so that wallet traces are observable
        let a = (i + salt) % b.actors.len();
        if let Some(tx) = b.payment(rng, &cur, a, sut_actor, 500 + (i + salt) as u64, 20, &mut exclude) {
            txs.push(tx);
        }
        if let Some(tx) = b.payment(rng, &cur, sut_actor, (a + 1) % b.actors.len(), 300 + salt as u64, 10, &mut exclude) {
            txs.push(tx);
        }
        if txs.is_empty() {
            txs.push(build_tx(&b.actors[a], &[], &[], b.store.get(&cur).ts + 2, b"noop"));
        }
        let spec = BlockSpec { gap: 2 * b.params.heartbeat + salt as u64 * 37, txs, with_gt: id % 2 == 0, gt_miner: a };
        cur = b.extend(rng, &cur, &spec).await.expect("honest chain");
        out.push(cur);
    }
    out
}

pub async fn run_scenario(sc: &Scenario, params: &Params, rng: &mut Rng, rep: &mut Report, with_pool: bool) {
    let n_actors = 4;
    let sut_actor = 1;
    let mut b = Builder::new(params, n_actors, &default_issuance(n_actors)).await;
    let creator = b.actors[0].clone();
    let genesis = b.genesis;
    let trunk = honest_chain(&mut b, rng, genesis, sc.trunk, 0, sut_actor).await;
    let fork = *trunk.last().unwrap_or(&b.genesis);
    let competitor = honest_chain(&mut b, rng, fork, sc.competitor, 1, sut_actor).await;
    let candidate = honest_chain(&mut b, rng, fork, sc.candidate, 2, sut_actor).await;
    // corrupt the offending block and re-point everything built on it
    let mut cand_blocks: Vec<Block> = candidate.iter().map(|h| b.store.get(h).block.clone()).collect();
    let donor = trunk.iter().flat_map(|h| b.store.get(h).block.transactions.iter()).find(|t| t.transaction_type == saito_core::core::consensus::transaction::TransactionType::Normal && t.from.iter().any(|s| s.amount > 0)).cloned();
    if !corrupt_with(&mut cand_blocks[sc.bad_pos - 1], sc.kind, &creator, rng, donor.as_ref()) {
        rep.count("cells_not_applicable");
        return;
    }
    for i in sc.bad_pos..cand_blocks.len() {
        let parent_hash = cand_blocks[i - 1].hash;
        if cand_blocks[i].previous_block_hash != parent_hash {
            repoint(&mut cand_blocks[i], parent_hash, &creator);
        }
    }
    let cand_bytes: Vec<Vec<u8>> = cand_blocks.iter().map(block_bytes).collect();

    // the node under test
    let mut node = LNode::new(&b.actors[sut_actor], params);
    for h in std::iter::once(&b.genesis).chain(trunk.iter()).chain(competitor.iter()) {
        let bytes = b.store.get(h).bytes.clone();
        let r = node.add_bytes(&bytes).await;
        assert_eq!(r, Some(Added::Ok(true)), "honest prefix must be accepted");
    }
    let old_tip = *competitor.last().unwrap_or(&fork);
    let mut side_bytes: Vec<Vec<u8>> = vec![];
    if sc.lighter_side {
        let mut cur = fork;
        for j in 0..=sc.competitor {
            let id = b.store.get(&cur).id + 1;
            let txs = vec![build_tx(&b.actors[2], &[], &[], b.store.get(&cur).ts + 4 + j as u64, b"side")];
            let spec = BlockSpec { gap: 4_000 * b.params.heartbeat, txs, with_gt: id % 2 == 0, gt_miner: 2 };
            match b.extend(rng, &cur, &spec).await {
                Ok(h) => {
                    cur = h;
                    side_bytes.push(b.store.get(&h).bytes.clone());
                }
                Err(_) => {
                    rep.count("cells_side_branch_not_built");
                    return;
                }
            }
        }
        for bytes in &side_bytes {
            let _ = node.add_bytes(bytes).await;
        }
        if node.tip().await.1 != old_tip {
            rep.count("cells_side_branch_adopted");
            return;
        }
        rep.count("cells_with_a_longer_lighter_side_branch_held");
    }
    if with_pool {
        // pending transactions: one conflicting with the candidate chain's spends, one unrelated
        let mut exclude = vec![];
        let mut mempool = node.mempool.write().await;
        let chain = node.chain.read().await;
        for (from, to) in [(sut_actor, 2usize), (3usize, 0usize)] {
            if let Some(tx) = b.payment(rng, &old_tip, from, to, 77, 5, &mut exclude) {
                mempool.add_transaction_if_validates(tx, &chain).await;
            }
        }
    }
    rep.eval();
    rep.count(&format!("cells.{:?}", sc.kind));
    rep.count(&format!("pos.{}", sc.pos_class()));
    rep.nontrivial(&format!("{}|{}|{}", sc.describe(), params.describe(), with_pool));
    let mut results = vec![];
    let mut rejected_any = false;
    let mut parentless = false;
    for (i, bytes) in cand_bytes.iter().enumerate() {
        {
            // children of a refused block arrive without a parent; with the realistic
            // configuration such blocks are processed (stored, index rewritten) - they are
            // accepted blocks, so what they do is C03/C05's business, not C04's
            let parent = cand_blocks[i].previous_block_hash;
            if !node.chain.read().await.blocks.contains_key(&parent) && !params.loading_completed {
                parentless = true;
            }
        }
        let before = snapshot_of(&node).await;
        let calls_before = verif::validate_calls();
        let r = crate::panics::catch_async(node.add_bytes(bytes)).await;
        let replay = || {
            json!({
                "kind": "fork-fault",
                "scenario": sc.describe(),
                "params": params.describe(),
                "prefix_hex": std::iter::once(&b.genesis).chain(trunk.iter()).chain(competitor.iter()).map(|h| hex::encode(&b.store.get(h).bytes)).chain(side_bytes.iter().map(hex::encode)).collect::<Vec<_>>(),
                "candidate_hex": cand_bytes.iter().map(hex::encode).collect::<Vec<_>>(),
                "failed_at_candidate_block": i + 1,
            })
        };
        let r = match r {
            Ok(r) => r,
            Err(p) => {
                let clause = if p.message.contains("validate loop exceeded step bound") { "livelock" } else { "panic" };
                rep.violation(
                    &format!("C04|clause={}|pos={}|{}", clause, sc.pos_class(), p.signature()),
                    &format!("{}: add_block of candidate block {} panicked: {}", sc.describe(), i + 1, p.message),
                    replay(),
                );
                return;
            }
        };
        let r = r.unwrap_or(Added::Invalid);
        results.push(r.short());
        // bounded steps (hook H1)
        if verif::validate_calls() > calls_before {
            let steps = verif::validate_steps();
            let new_len = (i + 1) as u64;
            let old_len = sc.competitor as u64;
            let bound = 2 * (new_len + old_len) + 2;
            rep.max("validate_steps", steps);
            rep.count("validate_calls");
            if steps > bound {
                rep.violation(
                    &format!("C04|clause=step-bound|pos={}", sc.pos_class()),
                    &format!("{}: validate took {} steps for old={} new={} (bound {})", sc.describe(), steps, old_len, new_len, bound),
                    replay(),
                );
            }
        }
        if !r.accepted() {
            rejected_any = true;
            rep.count("rejections");
            rep.count(&format!("rejections.{}", sc.pos_class()));
            let after = snapshot_of(&node).await;
            if before != after {
                let kinds = diff_kinds(&before, &after).join("+");
                rep.violation(
                    &format!("C04|clause=trace|what={}|pos={}", kinds, sc.pos_class()),
                    &format!("{}: candidate block {} was refused ({}) but state changed: {}", sc.describe(), i + 1, r.short(), diff(&before, &after).join("; ")),
                    replay(),
                );
                return;
            }
        }
    }
    if !rejected_any {
        rep.count(&format!("never_rejected.{:?}", sc.kind));
        if sc.candidate > sc.competitor {
            rep.count(&format!("invalid_chain_adopted.{:?}", sc.kind));
        }
        return;
    }
    // the node keeps working: one more honest block on its current tip is accepted onto the
    // longest chain (only judged when that tip is an honest block the builder knows)
    if parentless {
        rep.count("followup_skipped_parentless_blocks_processed");
        return;
    }
    let (_, tip_now) = node.tip().await;
    if !b.store.has(&tip_now) || !b.store.chain_valid(&tip_now) {
        rep.count("followup_skipped_tip_not_honest");
        return;
    }
    let next = honest_chain(&mut b, rng, tip_now, 1, 3, sut_actor).await;
    let bytes = b.store.get(&next[0]).bytes.clone();
    let r = crate::panics::catch_async(node.add_bytes(&bytes)).await;
    match r {
        Ok(Some(Added::Ok(true))) => {
            rep.count("continued_after_rejection");
            let chain = node.chain.read().await;
            if chain.get_latest_block_hash() != next[0] {
                rep.violation(
                    &format!("C04|clause=trace-after|what=tip-report|pos={}", sc.pos_class()),
                    &format!("{}: after the refused chain, the next honest block is accepted but the tip is {}", sc.describe(), chain.get_latest_block_id()),
                    json!({"kind":"fork-fault","scenario": sc.describe(), "params": params.describe()}),
                );
            }
        }
        other => {
            rep.violation(
                &format!("C04|clause=trace-after|what=next-honest-block-refused|pos={}", sc.pos_class()),
                &format!("{}: after the refused chain (results {:?}) the next honest block on the tip gives {:?}", sc.describe(), results, other.map(|x| x.map(|y| y.short())).map_err(|p| p.message)),
                json!({"kind":"fork-fault","scenario": sc.describe(), "params": params.describe()}),
            );
        }
    }
}

/// a refused block whose valid parent is wound and unwound again as the LAST step of the attempt,
/// with that parent sitting in slot 0 of the block ring (id = k x ring size): the node holds the
/// parent only as a side block because it arrived before its own parent (the regime saito-rust runs
/// in), so there is no old chain to wind back afterwards. Tip, index and ledger must be those of
/// before the refused block.
async fn ring_wrap_scenario(gp: u64, wraps: u64, kind: Kind, rng: &mut Rng, rep: &mut Report) {
    let mut params = Params::with_gp(gp);
    params.loading_completed = false;
    let n_actors = 4;
    let sut_actor = 1;
    let mut b = Builder::new(&params, n_actors, &default_issuance(n_actors)).await;
    let creator = b.actors[0].clone();
    let ring = 2 * gp;
    let x_id = ring * wraps;
    // honest chain up to X (id = x_id) and one more block Y on top of it
    let genesis = b.genesis;
    let chain = honest_chain(&mut b, rng, genesis, x_id as usize, 0, sut_actor).await;
    if chain.len() as u64 != x_id || b.store.get(chain.last().unwrap()).id != x_id + 0 {
        // (genesis has id 1: `x_id` further blocks end at id x_id + 1)
    }
    // ids: genesis 1, chain[i] has id i + 2; X is the block with id x_id
    let x_pos = (x_id - 2) as usize;
    if chain.len() <= x_pos + 1 {
        rep.count("ring_wrap_chain_not_built");
        return;
    }
    let (x, y) = (chain[x_pos], chain[x_pos + 1]);
    let mut bad = b.store.get(&y).block.clone();
    if !corrupt_with(&mut bad, kind, &creator, rng, None) {
        return;
    }
    let bad_bytes = block_bytes(&bad);
    let mut node = LNode::new(&b.actors[sut_actor], &params);
    let g = b.store.get(&b.genesis).bytes.clone();
    node.add_bytes(&g).await;
    for h in &chain[..x_pos - 1] {
        let bytes = b.store.get(h).bytes.clone();
        if node.add_bytes(&bytes).await != Some(Added::Ok(true)) {
            rep.count("ring_wrap_prefix_refused");
            return;
        }
    }
    // X before its parent, then the parent
    let xb = b.store.get(&x).bytes.clone();
    let _ = node.add_bytes(&xb).await;
    let pb = b.store.get(&chain[x_pos - 1]).bytes.clone();
    let _ = node.add_bytes(&pb).await;
    let (tid, th) = node.tip().await;
    if th != chain[x_pos - 1] || tid != x_id - 1 {
        // the node already moved on to X (or somewhere else): not the shape this scenario is about
        rep.count("ring_wrap_shape_not_reached");
        return;
    }
    rep.eval();
    rep.count("ring_wrap_cells");
    rep.nontrivial(&format!("ring-wrap|gp={}|wraps={}|{:?}", gp, wraps, kind));
    // winding the valid block X moves the persisted high-water mark (last_block_*) and may prune
    // blocks that leave the 2 x genesis-period horizon with it; neither is undone by unwinding X
    // and neither is the refused block's doing: both are left out of the comparison
    let horizon = (x_id + 1).saturating_sub(ring);
    let normalise = |mut s: crate::monitors::Snapshot| {
        s.last_id = 0;
        s.last_hash = [0; 32];
        s.blocks.retain(|_, (id, _)| *id > horizon);
        s.ring.retain(|id, _| *id > horizon);
        s.index.retain(|id, _| *id > horizon);
        s
    };
    let before = normalise(snapshot_of(&node).await);
    let r = crate::panics::catch_async(node.add_bytes(&bad_bytes)).await;
    let replay = json!({"kind":"ring-wrap","gp":gp,"wraps":wraps,"fault":format!("{:?}", kind),"chain_hex": std::iter::once(&b.genesis).chain(chain[..=x_pos].iter()).map(|h| hex::encode(&b.store.get(h).bytes)).collect::<Vec<_>>(),"refused_hex": hex::encode(&bad_bytes)});
    match r {
        Err(p) => {
            rep.violation(&format!("C04|clause=panic|pos=ring-wrap|{}", p.signature()), &format!("ring wrap gp={} id {}: add_block of the invalid child panicked: {}", gp, x_id + 1, p.message), replay);
        }
        Ok(res) => {
            let res = res.unwrap_or(Added::Invalid);
            if res.accepted() {
                rep.count("ring_wrap_invalid_child_not_refused");
                return;
            }
            rep.count("rejections");
            rep.count("rejections.ring-wrap");
            let after = normalise(snapshot_of(&node).await);
            if before != after {
                rep.violation(
                    &format!("C04|clause=trace|what={}|pos=ring-wrap", diff_kinds(&before, &after).join("+")),
                    &format!("ring of {} slots, tip {} with its valid child {} held as a side block: the invalid block {} on top of that child was refused ({}) but state changed: {}", ring, x_id - 1, x_id, x_id + 1, res.short(), diff(&before, &after).join("; ")),
                    replay,
                );
            }
        }
    }
}

pub async fn run(ctx: &Ctx, rep: &mut Report) {
    let mut rng = ctx.rng();
    rep.exhaustive = true;
    let mut work = 0u64;
    let configs: Vec<(Params, bool)> = if ctx.thorough {
        let mut v = vec![];
        for gp in [20u64, 8] {
            for loaded in [false, true] {
                for pool in [false, true] {
                    let mut p = Params::with_gp(gp);
                    p.loading_completed = loaded;
                    v.push((p, pool));
                }
            }
        }
        v
    } else {
        let mut p = Params::with_gp(20);
        p.loading_completed = false;
        let mut q = Params::with_gp(20);
        q.loading_completed = true;
        vec![(p, true), (q, false)]
    };
    for (params, pool) in configs {
        for trunk in [1usize, 2] {
            for competitor in 0..=3usize {
                for candidate in 1..=4usize {
                    let mut positions = vec![1usize];
                    if candidate >= 3 {
                        positions.push(2);
                    }
                    if candidate >= 2 {
                        positions.push(candidate);
                    }
                    for bad_pos in positions {
                        for kind in KINDS {
                            work += 1;
                            if !ctx.mine(work) {
                                continue;
                            }
                            let sc = Scenario { trunk, competitor, candidate, bad_pos, kind, lighter_side: false };
                            run_scenario(&sc, &params, &mut rng, rep, pool).await;
                            if competitor >= 1 && candidate > competitor {
                                let sc = Scenario { lighter_side: true, ..sc };
                                run_scenario(&sc, &params, &mut rng, rep, pool).await;
                            }
                        }
                    }
                }
            }
        }
    }
    // the block ring's wrap-around
    let mut cell = 0u64;
    for gp in [4u64, 6] {
        for wraps in [1u64, 2] {
            for kind in [Kind::Treasury, Kind::Difficulty, Kind::BurnFee] {
                cell += 1;
                if ctx.mine(cell) {
                    ring_wrap_scenario(gp, wraps, kind, &mut rng, rep).await;
                }
            }
        }
    }
    rep.sample(json!({"scenario":"trunk=1 competitor=2 candidate=3 bad=3(last) kind=BurnFee","meaning":"node holds genesis+trunk+competitor on its longest chain; the candidate chain forks off the trunk tip and is delivered in order; the offending block is an honest block edited and re-signed; snapshot (tip, utxoset, index, stored blocks, wallet, mempool) compared around every refused add_block; validate loop steps counted by hook H1"}));
}
