//! C20 — the shared locks (configuration, blockchain, mempool, peers, wallet) are taken in the
//! documented order. Decided by the lock-order monitor (`lockmon`) over the acquisition log of
//! the cfg-gated RwLock wrapper while (1) the workloads of the other properties run again with
//! the recorder on and (2) a node runs on a real multi-thread runtime through saito-rust's own
//! `run_thread` loops under traffic, with seeded delays before acquisitions.
use std::sync::atomic::{AtomicBool, Ordering};
use std::sync::{Arc, Mutex};
use std::time::Duration;

use saito_core::core::io::network_event::NetworkEvent;
use saito_core::core::msg::handshake::HandshakeChallenge;
use saito_core::core::msg::message::Message;
use saito_core::core::process::process_event::ProcessEvent;
use saito_core::core::util::verif;
use saito_rust::run_thread::run_thread;
use serde_json::json;

use crate::chain::Builder;
use crate::corpus::{blockchain_request, default_issuance, handshake_response, services};
use crate::io::{MemIo, OutMsg};
use crate::lockmon::{source_sites, Monitor};
use crate::node::Node;
use crate::props::{dispatch, Ctx};
use crate::report::Report;
use crate::rng::Rng;
use crate::world::*;

struct Drain {
    mon: Arc<Mutex<Monitor>>,
    stop: Arc<AtomicBool>,
    handle: Option<std::thread::JoinHandle<()>>,
}

impl Drain {
    fn start() -> Drain {
        let mon = Arc::new(Mutex::new(Monitor::default()));
        let stop = Arc::new(AtomicBool::new(false));
        let (m2, s2) = (mon.clone(), stop.clone());
        let handle = std::thread::spawn(move || loop {
            let done = s2.load(Ordering::SeqCst);
            let ev = verif::take_events();
            if !ev.is_empty() {
                m2.lock().unwrap_or_else(|e| e.into_inner()).feed(&ev);
            }
            if done {
                break;
            }
            std::thread::sleep(Duration::from_millis(10));
        });
        Drain { mon, stop, handle: Some(handle) }
    }
    fn finish(mut self) -> Monitor {
        self.stop.store(true, Ordering::SeqCst);
        if let Some(h) = self.handle.take() {
            let _ = h.join();
        }
        let ev = verif::take_events();
        let mut m = self.mon.lock().unwrap_or_else(|e| e.into_inner());
        m.feed(&ev);
        std::mem::take(&mut *m)
    }
}

/// a node on the multi-thread runtime: the worker structs run inside saito-rust's run_thread loops
async fn threaded_stress(ctx: &Ctx, seconds: u64, rep: &mut Report) {
    let mut rng = Rng::new(ctx.seed.wrapping_mul(77).wrapping_add(ctx.shard));
    let mut params = Params::with_gp(40);
    params.loading_completed = true;
    let mut b = Builder::new(&params, 8, &default_issuance(8)).await;
    let g = b.genesis;
    let start = b.grow(&mut rng, &g, 5, 2, 25).await;
    let end = b.grow(&mut rng, &start, 8, 2, 25).await;
    let chain = b.store.ancestors(&end);
    let all = actors(8);
    let clock = VClock::new(T0 + 3_600_000);
    let io = MemIo::new();
    let mut node = Node::new(&all[5], &params, io.clone(), clock.clone(), vec![], "http://n.example:1");
    if node.init().await.is_err() {
        rep.inconclusive("threaded node init panicked");
        return;
    }
    let mut future = vec![];
    let mut reached = false;
    for h in &chain {
        if !reached {
            node.add_block_direct(&b.store.get(h).bytes.clone()).await;
        } else {
            future.push(*h);
        }
        if *h == start {
            reached = true;
        }
    }
    while node.rx_router.try_recv().is_ok() {}
    let Node { mut routing, mut consensus, verification, mut mining, rx_router, rx_consensus, rx_miner, rx_verify, rx_stats, .. } = node;
    consensus.produce_blocks_by_timer = true;
    mining.enabled = true;
    routing.reconnection_timer = 0;
    let timer = clock.timer();
    let (net_tx, net_rx) = tokio::sync::mpsc::channel::<NetworkEvent>(100_000);
    let mut handles = vec![];
    handles.push(run_thread(Box::new(routing) as Box<dyn ProcessEvent<_> + Send>, Some(net_rx), Some(rx_router), 400, "routing", 3, &timer).await);
    handles.push(run_thread(Box::new(consensus) as Box<dyn ProcessEvent<_> + Send>, None, Some(rx_consensus), 400, "consensus", 3, &timer).await);
    handles.push(run_thread(Box::new(verification) as Box<dyn ProcessEvent<_> + Send>, None, Some(rx_verify), 400, "verification", 3, &timer).await);
    handles.push(run_thread(Box::new(mining) as Box<dyn ProcessEvent<_> + Send>, None, Some(rx_miner), 400, "mining", 3, &timer).await);
    // the stat channel must be drained or the senders block
    let stats = tokio::spawn(async move {
        let mut rx = rx_stats;
        while rx.recv().await.is_some() {}
    });
    // virtual time runs 40x
    let ticker_clock = clock.clone();
    let ticker = tokio::spawn(async move {
        loop {
            tokio::time::sleep(Duration::from_millis(2)).await;
            ticker_clock.advance(80);
        }
    });
    // ---- traffic: three peers (two complete the handshake), honest blocks, payments, requests
    let deadline = tokio::time::Instant::now() + Duration::from_secs(seconds);
    let mut sent = 0u64;
    let mut announced = 0usize;
    let mut connected: Vec<u64> = vec![];
    let mut next_peer = 1u64;
    let tip_hash = start;
    while tokio::time::Instant::now() < deadline {
        // answer what the node sent: challenges get a signed response, fetches get the block
        for m in io.take_outbox() {
            if let OutMsg::To(i, bytes) = m {
                if let Ok(Message::HandshakeChallenge(c)) = Message::deserialize(bytes) {
                    let signer = &all[(1 + (i as usize % 3)).min(7)];
                    let resp = handshake_response(signer, &c.challenge, &format!("http://peer{}.example:1", i), false, 1);
                    let _ = net_tx.send(NetworkEvent::IncomingNetworkMessage { peer_index: i, buffer: Message::HandshakeResponse(resp).serialize() }).await;
                    sent += 1;
                }
            }
        }
        for f in io.take_fetches() {
            if b.store.has(&f.hash) {
                let bytes = b.store.get(&f.hash).bytes.clone();
                let _ = net_tx.send(NetworkEvent::BlockFetched { block_hash: f.hash, block_id: f.block_id, peer_index: f.peer, buffer: bytes }).await;
            } else {
                let _ = net_tx.send(NetworkEvent::BlockFetchFailed { block_hash: f.hash, peer_index: f.peer, block_id: f.block_id }).await;
            }
            sent += 1;
        }
        let _ = io.take_events();
        let _ = io.take_disconnects();
        let peer = if connected.is_empty() { 0 } else { *rng.pick(&connected) };
        let ev = match rng.below(14) {
            0 if next_peer < 40 => {
                let p = next_peer;
                next_peer += 1;
                connected.push(p);
                Some(NetworkEvent::PeerConnectionResult { result: Ok((p, Some("10.1.1.1".into()))) })
            }
            1 if connected.len() > 2 => {
                let i = rng.below(connected.len() as u64) as usize;
                let p = connected.remove(i);
                Some(NetworkEvent::PeerDisconnected { peer_index: p, disconnect_type: saito_core::core::io::network::PeerDisconnectType::ExternalDisconnect })
            }
            2 | 3 if announced < future.len() && peer != 0 => {
                let h = future[announced];
                announced += 1;
                Some(NetworkEvent::IncomingNetworkMessage { peer_index: peer, buffer: Message::BlockHeaderHash(h, b.store.get(&h).id).serialize() })
            }
            4..=7 if peer != 0 => {
                let mut ex = vec![];
                let from = 1 + rng.below(6) as usize;
                let (amount, fee) = (1 + rng.below(50), 20 + rng.below(40));
                b.payment(&mut rng, &tip_hash, from, 7, amount, fee, &mut ex).map(|tx| NetworkEvent::IncomingNetworkMessage { peer_index: peer, buffer: Message::Transaction(tx).serialize() })
            }
            8 if peer != 0 => Some(NetworkEvent::IncomingNetworkMessage { peer_index: peer, buffer: Message::BlockchainRequest(blockchain_request(rng.below(12), &rng.hash32(), &[0; 32])).serialize() }),
            9 if peer != 0 => Some(NetworkEvent::IncomingNetworkMessage { peer_index: peer, buffer: Message::GhostChainRequest(rng.below(12), rng.hash32(), [0; 32]).serialize() }),
            10 if peer != 0 => Some(NetworkEvent::IncomingNetworkMessage { peer_index: peer, buffer: Message::KeyListUpdate(vec![all[1].pk, all[2].pk]).serialize() }),
            11 if peer != 0 => Some(NetworkEvent::IncomingNetworkMessage { peer_index: peer, buffer: Message::Services(services(2)).serialize() }),
            12 if peer != 0 => Some(NetworkEvent::IncomingNetworkMessage { peer_index: peer, buffer: Message::HandshakeChallenge(HandshakeChallenge { challenge: rng.hash32() }).serialize() }),
            _ => None,
        };
        if let Some(ev) = ev {
            let _ = net_tx.send(ev).await;
            sent += 1;
        }
        tokio::time::sleep(Duration::from_micros(300)).await;
    }
    for h in handles.iter() {
        if h.is_finished() {
            rep.count("stress_worker_ended_early");
        }
        h.abort();
    }
    ticker.abort();
    stats.abort();
    rep.add("stress_network_events_sent", sent);
    rep.add("stress_peers_connected", next_peer - 1);
    rep.add("stress_honest_blocks_announced", announced as u64);
    rep.count("stress_runs");
}

/// call paths the sub-workloads do not reach: genesis bundling, the miner, batched transaction
/// verification, key-list change, a parent requested from every peer
async fn targeted(rep: &mut Report) {
    use saito_core::core::mining_thread::MiningEvent;
    use saito_core::core::routing_thread::RoutingEvent;
    use saito_core::core::verification_thread::VerifyRequest;
    let mut rng = Rng::new(20);
    let params = Params::with_gp(40);
    let all = actors(8);
    // a node that starts on empty storage without peers bundles the genesis block itself
    let mut fresh = Node::new(&all[4], &params, MemIo::new(), VClock::new(T0), vec![], "http://g.example:1");
    let _ = fresh.init().await;
    fresh.consensus.produce_blocks_by_timer = true;
    for _ in 0..4 {
        let _ = fresh.tick(6_000).await;
        let _ = fresh.settle(50).await;
    }
    rep.add("targeted.genesis_node_tip", fresh.tip().await.0);
    // a node with a chain
    let mut b = Builder::new(&params, 8, &default_issuance(8)).await;
    let g = b.genesis;
    let tip = b.grow(&mut rng, &g, 4, 2, 25).await;
    let mut node = Node::new(&all[5], &params, MemIo::new(), VClock::new(T0 + 3_600_000), vec![], "http://n.example:1");
    let _ = node.init().await;
    for h in b.store.ancestors(&tip) {
        node.add_block_direct(&b.store.get(&h).bytes.clone()).await;
    }
    node.add_connected_peer(1, &all[1].pk, "http://peer1.example:1").await;
    // the miner
    node.mining.enabled = true;
    let t = b.store.get(&tip);
    let _ = crate::panics::catch_async(node.mining.process_event(MiningEvent::LongestChainBlockAdded { hash: t.hash, difficulty: 0, block_id: t.id })).await;
    for _ in 0..3 {
        let _ = crate::panics::catch_async(node.mining.process_timer_event(Duration::from_millis(100))).await;
    }
    // a batch of transactions through the verification thread
    let mut ex = vec![];
    let mut txs = std::collections::VecDeque::new();
    for i in 0..5u64 {
        if let Some(tx) = b.payment(&mut rng, &tip, 1 + (i as usize % 5), 7, 5 + i, 30, &mut ex) {
            txs.push_back(tx);
        }
    }
    rep.add("targeted.batched_transactions", txs.len() as u64);
    let _ = crate::panics::catch_async(node.verification.process_event(VerifyRequest::Transactions(txs))).await;
    let _ = node.settle(50).await;
    // key list change, parent requested without a known peer
    let _ = crate::panics::catch_async(node.routing.set_my_key_list(vec![all[1].pk, all[2].pk])).await;
    let _ = crate::panics::catch_async(node.routing.process_event(RoutingEvent::BlockFetchRequest(0, rng.hash32(), 9))).await;
    let _ = crate::panics::catch_async(node.routing.process_event(RoutingEvent::BlockchainRequest(1))).await;
    let _ = node.tick(6_000).await;
    let _ = node.settle(50).await;
    rep.count("targeted_runs");
}

pub async fn run(ctx: &Ctx, rep: &mut Report) {
    verif::take_events();
    verif::set_recording(true);
    let drain = Drain::start();
    // ---- (1) the workloads of the other properties, recorder on; their verdicts are not ours
    let subs = ["C03", "C05", "C11", "C12", "C13", "C14", "C15", "C16", "C17", "C19", "C07", "C01"];
    for (i, prop) in subs.iter().enumerate() {
        let sub = Ctx { seed: ctx.seed.wrapping_add(i as u64), thorough: false, shard: ctx.shard, shards: ctx.shards * if ctx.thorough { 1 } else { 3 }, replay: None, build: ctx.build.clone() };
        let mut scratch = Report::new(prop, "quick", sub.seed, sub.shard);
        let r = crate::panics::catch_async(Box::pin(dispatch(prop, &sub, &mut scratch))).await;
        if r.is_err() {
            rep.count("sub_workloads_panicked");
        }
        rep.count("sub_workloads");
        rep.add(&format!("sub_workload_evaluations.{}", prop), scratch.evaluations);
    }
    targeted(rep).await;
    // ---- (2) the node on a real multi-thread runtime, seeded delays before acquisitions
    if tokio::runtime::Handle::current().runtime_flavor() == tokio::runtime::RuntimeFlavor::MultiThread {
        verif::set_delays(5, ctx.seed.wrapping_mul(31).wrapping_add(ctx.shard) | 1);
        threaded_stress(ctx, ctx.scale(5, 40), rep).await;
        verif::set_delays(0, 1);
    } else {
        rep.inconclusive("the threaded stress needs --threads N");
    }
    verif::set_recording(false);
    let mut mon = drain.finish();
    // ---- verdicts
    rep.add("lock_events", mon.events);
    rep.add("acquisitions", mon.acquisitions);
    rep.add("acquisitions_at_repository_sites", mon.repo_acquisitions);
    rep.add("nested_in_order_acquisitions", mon.forward_nested);
    rep.add("tasks_observed", mon.tasks.len() as u64);
    rep.max("max_locks_held_by_one_task", mon.max_depth as u64);
    rep.add("unmatched_releases", mon.unmatched_releases);
    rep.evals(mon.repo_acquisitions);
    let all_sites = source_sites();
    let seen: std::collections::BTreeSet<(String, u32)> = mon.sites.iter().cloned().collect();
    let in_core: Vec<&(String, u32)> = all_sites.iter().filter(|s| s.0.starts_with("saito-core/")).collect();
    let seen_core = in_core.iter().filter(|s| seen.contains(**s)).count();
    rep.max("source_sites.saito-core", in_core.len() as u64);
    rep.max("source_sites.saito-core.observed", seen_core as u64);
    rep.max("source_sites.saito-rust+spammer", (all_sites.len() - in_core.len()) as u64);
    rep.max("distinct_sites_observed", seen.len() as u64);
    for s in seen.iter() {
        rep.nontrivial(&format!("site|{}|{}", s.0, s.1));
    }
    let unobserved: Vec<String> = in_core.iter().filter(|s| !seen.contains(**s)).map(|s| format!("{}:{}", s.0.trim_start_matches("saito-core/src/core/"), s.1)).collect();
    rep.note(&format!("saito-core acquisition sites never observed ({}): {}", unobserved.len(), unobserved.join(" ")));
    for (what, n) in mon.same_lock_reacquired.iter() {
        rep.note(&format!("same lock re-acquired while held (reported, not judged): {} x{}", what, n));
    }
    let inversions: Vec<(String, String)> = mon.unexcused();
    rep.add("inversion_edges_observed", mon.inversions.len() as u64);
    for (sig, detail) in inversions {
        rep.violation(&sig, &detail, json!({"kind":"lock-order","note":"reproduce with bin/check C20; the edge is a property of the call path, not of a schedule"}));
    }
    let _ = mon.site("", 0);
}
