//! Panic capture: a process-wide hook records location, message and the first `saito_core::`
//! frame of the backtrace; `catch`/`catch_async` run code under `catch_unwind` and return the
//! captured record. Signatures never contain line numbers (DESIGN section 4).
use std::cell::RefCell;
use std::collections::HashMap;
use std::future::Future;
use std::panic::{catch_unwind, AssertUnwindSafe};
use std::sync::{Mutex, Once};

use futures::FutureExt;

#[derive(Clone, Debug, Default)]
pub struct PanicInfo {
    pub file: String,
    pub line: u32,
    pub message: String,
    /// first frame inside the repository's crates (function path)
    pub repo_frame: String,
}

impl PanicInfo {
    /// message with every run of digits / hex blobs replaced by '#'
    pub fn masked_message(&self) -> String {
        mask(&self.message)
    }
    /// source file relative to the repository (or the std path when the panic is raised in std)
    pub fn rel_file(&self) -> String {
        rel(&self.file)
    }
    pub fn signature(&self) -> String {
        format!(
            "file={}|fn={}|msg={}",
            self.rel_file(),
            self.repo_frame,
            self.masked_message()
        )
    }
}

pub fn rel(file: &str) -> String {
    if let Some(pos) = file.find("/repo/") {
        return file[pos + 6..].to_string();
    }
    if let Some(pos) = file.find("/library/") {
        return format!("std:{}", &file[pos + 9..]);
    }
    if let Some(pos) = file.find("/registry/src/") {
        let rest = &file[pos + 14..];
        if let Some(p2) = rest.find('/') {
            return format!("dep:{}", &rest[p2 + 1..]);
        }
    }
    file.to_string()
}

pub fn mask(msg: &str) -> String {
    let mut out = String::with_capacity(msg.len());
    let mut in_num = false;
    for ch in msg.chars().take(240) {
        if ch.is_ascii_digit() {
            if !in_num {
                out.push('#');
                in_num = true;
            }
        } else {
            in_num = false;
            out.push(if ch == '\n' || ch == '|' { ' ' } else { ch });
        }
    }
    // long hex strings contain letters too; collapse tokens that still contain '#' and hex letters
    let collapsed: Vec<String> = out
        .split(' ')
        .map(|tok| {
            if tok.len() > 16 && tok.chars().all(|c| c.is_ascii_hexdigit() || c == '#' || c == '"')
            {
                "#".to_string()
            } else {
                tok.to_string()
            }
        })
        .collect();
    let mut joined = collapsed.join(" ");
    // lists of numbers ("[#, #, #, ...") collapse to one token whatever their length
    while joined.contains("#, #") {
        joined = joined.replace("#, #", "#");
    }
    joined
}

thread_local! {
    static LAST: RefCell<Option<PanicInfo>> = RefCell::new(None);
}
static FRAME_CACHE: Mutex<Option<HashMap<(String, u32), String>>> = Mutex::new(None);
static INSTALL: Once = Once::new();

fn first_repo_frame(file: &str, line: u32) -> String {
    let cacheable = file.contains("/repo/");
    if cacheable {
        let cache = FRAME_CACHE.lock().unwrap_or_else(|e| e.into_inner());
        if let Some(map) = cache.as_ref() {
            if let Some(v) = map.get(&(file.to_string(), line)) {
                return v.clone();
            }
        }
    }
    let bt = std::backtrace::Backtrace::force_capture().to_string();
    let mut frame = String::new();
    for l in bt.lines() {
        let t = l.trim();
        // frame lines look like "12: saito_core::core::...::func"
        if let Some(pos) = t.find(": ") {
            let name = &t[pos + 2..];
            if (name.starts_with("saito_core::")
                || name.starts_with("<saito_core::")
                || name.starts_with("saito_rust::"))
                && !name.contains("::verif::")
            {
                let mut n = name.to_string();
                // strip the hash suffix and closure markers
                if let Some(h) = n.rfind("::h") {
                    if n.len() - h == 19 {
                        n.truncate(h);
                    }
                }
                frame = n.replace("::{{closure}}", "");
                break;
            }
        }
    }
    if cacheable {
        let mut cache = FRAME_CACHE.lock().unwrap_or_else(|e| e.into_inner());
        cache
            .get_or_insert_with(HashMap::new)
            .insert((file.to_string(), line), frame.clone());
    }
    frame
}

pub fn install() {
    INSTALL.call_once(|| {
        std::panic::set_hook(Box::new(|info| {
            crate::alloc::disarm();
            let (file, line) = info
                .location()
                .map(|l| (l.file().to_string(), l.line()))
                .unwrap_or_default();
            let message = if let Some(s) = info.payload().downcast_ref::<&str>() {
                s.to_string()
            } else if let Some(s) = info.payload().downcast_ref::<String>() {
                s.clone()
            } else {
                "<non-string panic>".to_string()
            };
            let repo_frame = first_repo_frame(&file, line);
            if std::env::var("SVH_PANIC_TRACE").is_ok() {
                eprintln!("PANIC {}:{} {} [{}]", file, line, message, repo_frame);
            }
            LAST.with(|l| {
                *l.borrow_mut() = Some(PanicInfo {
                    file,
                    line,
                    message,
                    repo_frame,
                })
            });
        }));
    });
}

fn take_last() -> PanicInfo {
    LAST.with(|l| l.borrow_mut().take()).unwrap_or_default()
}

pub fn catch<T>(f: impl FnOnce() -> T) -> Result<T, PanicInfo> {
    install();
    match catch_unwind(AssertUnwindSafe(f)) {
        Ok(v) => Ok(v),
        Err(_) => Err(take_last()),
    }
}

pub async fn catch_async<T>(f: impl Future<Output = T>) -> Result<T, PanicInfo> {
    install();
    match AssertUnwindSafe(f).catch_unwind().await {
        Ok(v) => Ok(v),
        Err(_) => Err(take_last()),
    }
}

/// true when the panic was raised by harness code itself (a harness bug, never a verdict)
pub fn is_harness_panic(p: &PanicInfo) -> bool {
    p.file.contains("/verif/harness/") && p.repo_frame.is_empty()
}
