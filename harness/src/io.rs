//! MemIo: the whole I/O boundary of saito-core (`InterfaceIO`) kept in memory and logged.
//! Storage semantics mirror saito-rust's `RustIOHandler` (create/truncate then write; wallet
//! stored under ./data/wallet; block list = files in the block dir containing ".sai").
use std::collections::BTreeMap;
use std::io::{Error, ErrorKind};
use std::sync::{Arc, Mutex, MutexGuard};

use async_trait::async_trait;
use saito_core::core::consensus::peers::peer_service::PeerService;
use saito_core::core::consensus::wallet::Wallet;
use saito_core::core::defs::{BlockId, PeerIndex, SaitoHash, SaitoPublicKey};
use saito_core::core::io::interface_io::{InterfaceEvent, InterfaceIO};

use std::sync::atomic::{AtomicBool, AtomicU8, Ordering};

/// Storage semantics of the native node's handler as MEASURED by `ioprobe` under strace at check
/// time (bin/check passes them on): does write_value replace the file through a temporary file
/// and a rename, does the block listing skip leftover `*.tmp` files, and what does load_wallet
/// do with a short file (0 = panics, 1 = returns an error, 2 = returns Ok). The defaults are the
/// behaviour of the pinned tree.
pub static WRITE_VIA_RENAME: AtomicBool = AtomicBool::new(false);
pub static LIST_SKIPS_TMP: AtomicBool = AtomicBool::new(false);
pub static SHORT_WALLET: AtomicU8 = AtomicU8::new(0);
/// a write fails when `<key>.tmp` is lying around from an interrupted write (measured)
pub static STALE_TMP_BLOCKS_WRITE: AtomicBool = AtomicBool::new(false);
pub const TMP_SUFFIX: &str = ".tmp";

pub fn set_stale_tmp(blocks: bool) {
    STALE_TMP_BLOCKS_WRITE.store(blocks, Ordering::SeqCst);
}

pub fn set_io_model(write: &str, list: &str, short_wallet: &str) {
    WRITE_VIA_RENAME.store(write == "rename", Ordering::SeqCst);
    LIST_SKIPS_TMP.store(list == "skips-tmp", Ordering::SeqCst);
    SHORT_WALLET.store(match short_wallet { "error" => 1, "ok" => 2, _ => 0 }, Ordering::SeqCst);
}

pub fn io_model() -> (bool, bool, u8) {
    (WRITE_VIA_RENAME.load(Ordering::SeqCst), LIST_SKIPS_TMP.load(Ordering::SeqCst), SHORT_WALLET.load(Ordering::SeqCst))
}

pub const BLOCK_DIR: &str = "./data/blocks/";
pub const CHECKPOINT_DIR: &str = "./data/checkpoints/";
pub const WALLET_PATH: &str = "./data/wallet";

#[derive(Clone, Debug, PartialEq, Eq)]
pub enum JournalKind {
    Write,
    Append,
    Remove,
}

#[derive(Clone, Debug)]
pub struct JournalOp {
    pub seq: u64,
    pub kind: JournalKind,
    pub key: String,
    pub data: Vec<u8>,
}

#[derive(Clone, Debug)]
pub enum OutMsg {
    To(u64, Vec<u8>),
    All(Vec<u8>, Vec<u64>),
}

#[derive(Clone, Debug)]
pub struct FetchReq {
    pub hash: SaitoHash,
    pub peer: u64,
    pub url: String,
    pub block_id: BlockId,
}

#[derive(Clone, Debug, PartialEq, Eq)]
pub enum IfEvent {
    PeerHandshakeComplete(PeerIndex),
    PeerConnectionDropped(PeerIndex, SaitoPublicKey),
    PeerConnected(PeerIndex),
    BlockAddSuccess(SaitoHash, u64),
    WalletUpdate,
    NewVersionDetected(PeerIndex),
    StunPeerConnected(PeerIndex),
    StunPeerDisconnected(PeerIndex),
    BlockFetchStatus(BlockId),
}

#[derive(Default, Debug)]
pub struct IoState {
    pub files: BTreeMap<String, Vec<u8>>,
    /// write order of files (stands in for mtime)
    pub mtime: BTreeMap<String, u64>,
    pub journal: Vec<JournalOp>,
    pub journal_on: bool,
    pub op_seq: u64,
    pub outbox: Vec<OutMsg>,
    pub fetches: Vec<FetchReq>,
    pub disconnects: Vec<u64>,
    pub connects: Vec<(String, u64)>,
    pub events: Vec<IfEvent>,
    pub api_calls: u64,
    /// fail the write whose op_seq equals this value
    pub fail_write_at: Option<u64>,
    pub reads: u64,
}

#[derive(Clone, Debug, Default)]
pub struct MemIo {
    pub st: Arc<Mutex<IoState>>,
}

impl MemIo {
    pub fn new() -> MemIo {
        MemIo::default()
    }
    pub fn from_files(files: BTreeMap<String, Vec<u8>>) -> MemIo {
        let io = MemIo::default();
        {
            let mut st = io.lock();
            for (i, (k, _)) in files.iter().enumerate() {
                st.mtime.insert(k.clone(), i as u64);
            }
            st.op_seq = files.len() as u64;
            st.files = files;
        }
        io
    }
    pub fn lock(&self) -> MutexGuard<'_, IoState> {
        self.st.lock().unwrap_or_else(|e| e.into_inner())
    }
    pub fn boxed(&self) -> Box<dyn InterfaceIO + Send + Sync> {
        Box::new(self.clone())
    }
    pub fn take_outbox(&self) -> Vec<OutMsg> {
        std::mem::take(&mut self.lock().outbox)
    }
    pub fn take_fetches(&self) -> Vec<FetchReq> {
        std::mem::take(&mut self.lock().fetches)
    }
    pub fn take_events(&self) -> Vec<IfEvent> {
        std::mem::take(&mut self.lock().events)
    }
    pub fn take_disconnects(&self) -> Vec<u64> {
        std::mem::take(&mut self.lock().disconnects)
    }
    pub fn take_connects(&self) -> Vec<(String, u64)> {
        std::mem::take(&mut self.lock().connects)
    }
    pub fn files(&self) -> BTreeMap<String, Vec<u8>> {
        self.lock().files.clone()
    }
    pub fn block_files(&self) -> Vec<String> {
        self.lock()
            .files
            .keys()
            .filter(|k| k.starts_with(BLOCK_DIR) && k.contains(".sai"))
            .cloned()
            .collect()
    }
    pub fn set_journal(&self, on: bool) {
        self.lock().journal_on = on;
    }
    pub fn journal_len(&self) -> usize {
        self.lock().journal.len()
    }
}

#[async_trait]
impl InterfaceIO for MemIo {
    async fn send_message(&self, peer_index: u64, buffer: &[u8]) -> Result<(), Error> {
        self.lock().outbox.push(OutMsg::To(peer_index, buffer.to_vec()));
        Ok(())
    }

    async fn send_message_to_all(
        &self,
        buffer: &[u8],
        excluded_peers: Vec<u64>,
    ) -> Result<(), Error> {
        self.lock()
            .outbox
            .push(OutMsg::All(buffer.to_vec(), excluded_peers));
        Ok(())
    }

    async fn connect_to_peer(&mut self, url: String, peer_index: PeerIndex) -> Result<(), Error> {
        self.lock().connects.push((url, peer_index));
        Ok(())
    }

    async fn disconnect_from_peer(&self, peer_index: u64) -> Result<(), Error> {
        self.lock().disconnects.push(peer_index);
        Ok(())
    }

    async fn fetch_block_from_peer(
        &self,
        block_hash: SaitoHash,
        peer_index: u64,
        url: &str,
        block_id: BlockId,
    ) -> Result<(), Error> {
        self.lock().fetches.push(FetchReq {
            hash: block_hash,
            peer: peer_index,
            url: url.to_string(),
            block_id,
        });
        Ok(())
    }

    async fn write_value(&self, key: &str, value: &[u8]) -> Result<(), Error> {
        let mut st = self.lock();
        let seq = st.op_seq;
        st.op_seq += 1;
        if st.fail_write_at == Some(seq) {
            return Err(Error::from(ErrorKind::Other));
        }
        if STALE_TMP_BLOCKS_WRITE.load(Ordering::SeqCst) && st.files.contains_key(&format!("{}{}", key, TMP_SUFFIX)) {
            return Err(Error::from(ErrorKind::AlreadyExists));
        }
        // a completed temporary-file write replaces whatever leftover there was
        if WRITE_VIA_RENAME.load(Ordering::SeqCst) {
            st.files.remove(&format!("{}{}", key, TMP_SUFFIX));
        }
        if st.journal_on {
            st.journal.push(JournalOp {
                seq,
                kind: JournalKind::Write,
                key: key.to_string(),
                data: value.to_vec(),
            });
        }
        st.files.insert(key.to_string(), value.to_vec());
        st.mtime.insert(key.to_string(), seq);
        Ok(())
    }

    async fn append_value(&mut self, key: &str, value: &[u8]) -> Result<(), Error> {
        let mut st = self.lock();
        let seq = st.op_seq;
        st.op_seq += 1;
        if st.journal_on {
            st.journal.push(JournalOp {
                seq,
                kind: JournalKind::Append,
                key: key.to_string(),
                data: value.to_vec(),
            });
        }
        st.files
            .entry(key.to_string())
            .or_default()
            .extend_from_slice(value);
        st.mtime.insert(key.to_string(), seq);
        Ok(())
    }

    async fn flush_data(&mut self, _key: &str) -> Result<(), Error> {
        Ok(())
    }

    async fn read_value(&self, key: &str) -> Result<Vec<u8>, Error> {
        let mut st = self.lock();
        st.reads += 1;
        match st.files.get(key) {
            Some(v) => Ok(v.clone()),
            None => Err(Error::from(ErrorKind::NotFound)),
        }
    }

    async fn load_block_file_list(&self) -> Result<Vec<String>, Error> {
        let st = self.lock();
        let mut names: Vec<(u64, String)> = st
            .files
            .keys()
            .filter(|k| k.starts_with(BLOCK_DIR) && k[BLOCK_DIR.len()..].contains(".sai"))
            .filter(|k| !(LIST_SKIPS_TMP.load(Ordering::SeqCst) && k.ends_with(TMP_SUFFIX)))
            .map(|k| {
                (
                    *st.mtime.get(k).unwrap_or(&0),
                    k[BLOCK_DIR.len()..].to_string(),
                )
            })
            .collect();
        names.sort();
        Ok(names.into_iter().map(|(_, n)| n).collect())
    }

    async fn is_existing_file(&self, key: &str) -> bool {
        self.lock().files.contains_key(key)
    }

    async fn remove_value(&self, key: &str) -> Result<(), Error> {
        let mut st = self.lock();
        let seq = st.op_seq;
        st.op_seq += 1;
        if st.journal_on {
            st.journal.push(JournalOp {
                seq,
                kind: JournalKind::Remove,
                key: key.to_string(),
                data: vec![],
            });
        }
        st.mtime.remove(key);
        match st.files.remove(key) {
            Some(_) => Ok(()),
            None => Err(Error::from(ErrorKind::NotFound)),
        }
    }

    fn get_block_dir(&self) -> String {
        BLOCK_DIR.to_string()
    }

    fn get_checkpoint_dir(&self) -> String {
        CHECKPOINT_DIR.to_string()
    }

    fn ensure_block_directory_exists(&self, _block_dir: &str) -> Result<(), Error> {
        Ok(())
    }

    async fn process_api_call(&self, _buffer: Vec<u8>, _msg_index: u32, _peer_index: PeerIndex) {
        self.lock().api_calls += 1;
    }
    async fn process_api_success(&self, _buffer: Vec<u8>, _msg_index: u32, _peer_index: PeerIndex) {
        self.lock().api_calls += 1;
    }
    async fn process_api_error(&self, _buffer: Vec<u8>, _msg_index: u32, _peer_index: PeerIndex) {
        self.lock().api_calls += 1;
    }

    fn send_interface_event(&self, event: InterfaceEvent) {
        let ev = match event {
            InterfaceEvent::PeerHandshakeComplete(i) => IfEvent::PeerHandshakeComplete(i),
            InterfaceEvent::PeerConnectionDropped(i, k) => IfEvent::PeerConnectionDropped(i, k),
            InterfaceEvent::PeerConnected(i) => IfEvent::PeerConnected(i),
            InterfaceEvent::BlockAddSuccess(h, id) => IfEvent::BlockAddSuccess(h, id),
            InterfaceEvent::WalletUpdate() => IfEvent::WalletUpdate,
            InterfaceEvent::NewVersionDetected(i, _) => IfEvent::NewVersionDetected(i),
            InterfaceEvent::StunPeerConnected(i) => IfEvent::StunPeerConnected(i),
            InterfaceEvent::StunPeerDisconnected(i, _) => IfEvent::StunPeerDisconnected(i),
            InterfaceEvent::BlockFetchStatus(id) => IfEvent::BlockFetchStatus(id),
        };
        self.lock().events.push(ev);
    }

    async fn save_wallet(&self, wallet: &mut Wallet) -> Result<(), Error> {
        let buffer = wallet.serialize_for_disk();
        self.write_value(WALLET_PATH, buffer.as_slice()).await
    }

    async fn load_wallet(&self, wallet: &mut Wallet) -> Result<(), Error> {
        if !self.is_existing_file(WALLET_PATH).await {
            return Ok(());
        }
        let buffer = self.read_value(WALLET_PATH).await?;
        // what RustIOHandler::load_wallet was measured to do with a file too short to hold the keys
        if buffer.len() < 65 {
            match SHORT_WALLET.load(Ordering::SeqCst) {
                1 => return Err(Error::from(ErrorKind::InvalidData)),
                2 => return Ok(()),
                _ => {}
            }
        }
        wallet.deserialize_from_disk(&buffer);
        Ok(())
    }

    fn get_my_services(&self) -> Vec<PeerService> {
        vec![]
    }
}
