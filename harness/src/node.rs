//! A whole node: the four worker "threads" of saito-core built with struct literals (as the
//! crate's own test-only NodeTester does) over one MemIo / virtual clock, with the harness
//! owning the queues between them so that the order of handler calls is a recorded choice.
use std::sync::Arc;
use std::time::Duration;

use saito_core::core::consensus::blockchain::Blockchain;
use saito_core::core::consensus::blockchain_sync_state::BlockchainSyncState;
use saito_core::core::consensus::mempool::Mempool;
use saito_core::core::consensus::peers::peer_collection::PeerCollection;
use saito_core::core::consensus::wallet::Wallet;
use saito_core::core::consensus_thread::{ConsensusEvent, ConsensusStats, ConsensusThread};
use saito_core::core::defs::{StatVariable, STAT_BIN_COUNT};
use saito_core::core::io::network::Network;
use saito_core::core::io::network_event::NetworkEvent;
use saito_core::core::io::storage::Storage;
use saito_core::core::mining_thread::{MiningEvent, MiningThread};
use saito_core::core::process::process_event::ProcessEvent;
use saito_core::core::routing_thread::{RoutingEvent, RoutingStats, RoutingThread};
use saito_core::core::util::configuration::PeerConfig;
use saito_core::core::verification_thread::{VerificationThread, VerifyRequest};
use tokio::sync::mpsc::Receiver;

use crate::io::MemIo;
use crate::panics::{catch_async, PanicInfo};
use crate::world::*;

pub struct Node {
    pub key: Actor,
    pub params: Params,
    pub io: MemIo,
    pub clock: VClock,
    pub wallet: Arc<RwLock<Wallet>>,
    pub chain: Arc<RwLock<Blockchain>>,
    pub mempool: Arc<RwLock<Mempool>>,
    pub cfg: CfgLock,
    pub peers: Arc<RwLock<PeerCollection>>,
    pub routing: RoutingThread,
    pub consensus: ConsensusThread,
    pub verification: VerificationThread,
    pub mining: MiningThread,
    pub rx_router: Receiver<RoutingEvent>,
    pub rx_consensus: Receiver<ConsensusEvent>,
    pub rx_miner: Receiver<MiningEvent>,
    pub rx_verify: Receiver<VerifyRequest>,
    pub rx_stats: Receiver<String>,
    pub handler_calls: u64,
    /// the block the mining thread was last told to work on (its only source of the tip)
    pub miner_target: Option<(u64, [u8; 32])>,
}

#[derive(Clone, Copy, Debug, PartialEq, Eq)]
pub enum Queue {
    Router,
    Consensus,
    Verify,
    Miner,
}

impl Node {
    pub fn new(key: &Actor, params: &Params, io: MemIo, clock: VClock, static_peers: Vec<PeerConfig>, fetch_url: &str) -> Node {
        let wallet = Arc::new(RwLock::new(Wallet::new(key.sk, key.pk)));
        let mut hc = HarnessConfig::new(params);
        hc.peers = static_peers;
        hc.fetch_url = fetch_url.to_string();
        let cfg: CfgLock = Arc::new(RwLock::new(hc));
        let chain = Arc::new(RwLock::new(Blockchain::new(wallet.clone(), params.gp, params.stake, params.stake_period)));
        let mempool = Arc::new(RwLock::new(Mempool::new(wallet.clone())));
        let peers = Arc::new(RwLock::new(PeerCollection::default()));
        let size = 200_000;
        let (tx_consensus, rx_consensus) = tokio::sync::mpsc::channel(size);
        let (tx_router, rx_router) = tokio::sync::mpsc::channel(size);
        let (tx_miner, rx_miner) = tokio::sync::mpsc::channel(size);
        let (tx_stats, rx_stats) = tokio::sync::mpsc::channel(size);
        let (tx_verify, rx_verify) = tokio::sync::mpsc::channel(size);
        let timer = clock.timer();
        let sv = |n: &str| StatVariable::new(n.to_string(), STAT_BIN_COUNT, tx_stats.clone());
        let routing = RoutingThread {
            blockchain_lock: chain.clone(),
            mempool_lock: mempool.clone(),
            sender_to_consensus: tx_consensus.clone(),
            sender_to_miner: tx_miner.clone(),
            config_lock: cfg.clone(),
            timer: timer.clone(),
            wallet_lock: wallet.clone(),
            network: Network::new(io.boxed(), peers.clone(), wallet.clone(), cfg.clone(), timer.clone()),
            storage: Storage::new(io.boxed()),
            reconnection_timer: 0,
            peer_removal_timer: 0,
            peer_file_write_timer: 0,
            last_emitted_block_fetch_count: 0,
            stats: RoutingStats::new(tx_stats.clone()),
            senders_to_verification: vec![tx_verify.clone()],
            last_verification_thread_index: 0,
            stat_sender: tx_stats.clone(),
            blockchain_sync_state: BlockchainSyncState::new(params.batch_size as usize),
        };
        let consensus = ConsensusThread {
            mempool_lock: mempool.clone(),
            blockchain_lock: chain.clone(),
            wallet_lock: wallet.clone(),
            generate_genesis_block: false,
            sender_to_router: tx_router.clone(),
            sender_to_miner: tx_miner.clone(),
            block_producing_timer: 0,
            timer: timer.clone(),
            network: Network::new(io.boxed(), peers.clone(), wallet.clone(), cfg.clone(), timer.clone()),
            storage: Storage::new(io.boxed()),
            stats: ConsensusStats::new(tx_stats.clone()),
            txs_for_mempool: vec![],
            stat_sender: tx_stats.clone(),
            config_lock: cfg.clone(),
            produce_blocks_by_timer: false,
            delete_old_blocks: true,
        };
        let mining = MiningThread {
            wallet_lock: wallet.clone(),
            sender_to_mempool: tx_consensus.clone(),
            timer: timer.clone(),
            miner_active: false,
            target: [0; 32],
            target_id: 0,
            difficulty: 0,
            public_key: [0; 33],
            mined_golden_tickets: 0,
            stat_sender: tx_stats.clone(),
            config_lock: cfg.clone(),
            enabled: false,
            mining_iterations: 1,
            mining_start: 0,
        };
        let verification = VerificationThread {
            sender_to_consensus: tx_consensus.clone(),
            blockchain_lock: chain.clone(),
            peer_lock: peers.clone(),
            wallet_lock: wallet.clone(),
            processed_txs: sv("verification::processed_txs"),
            processed_blocks: sv("verification::processed_blocks"),
            processed_msgs: sv("verification::processed_msgs"),
            invalid_txs: sv("verification::invalid_txs"),
            stat_sender: tx_stats.clone(),
        };
        Node {
            key: key.clone(),
            params: params.clone(),
            io,
            clock,
            wallet,
            chain,
            mempool,
            cfg,
            peers,
            routing,
            consensus,
            verification,
            mining,
            rx_router,
            rx_consensus,
            rx_miner,
            rx_verify,
            rx_stats,
            handler_calls: 0,
            miner_target: None,
        }
    }

    /// what the native node does at start-up (ConsensusThread::on_init loads the block files)
    pub async fn init(&mut self) -> Result<(), PanicInfo> {
        catch_async(async {
            self.consensus.on_init().await;
            self.routing.on_init().await;
            self.verification.on_init().await;
        })
        .await?;
        self.drain_side_channels();
        Ok(())
    }

    pub fn drain_side_channels(&mut self) {
        while let Ok(ev) = self.rx_miner.try_recv() {
            let MiningEvent::LongestChainBlockAdded { hash, block_id, .. } = ev;
            self.miner_target = Some((block_id, hash));
        }
        while self.rx_stats.try_recv().is_ok() {}
    }

    /// a network event enters through the routing thread (as in saito-rust's run loop)
    pub async fn net(&mut self, ev: NetworkEvent) -> Result<(), PanicInfo> {
        self.handler_calls += 1;
        let r = catch_async(self.routing.process_network_event(ev)).await.map(|_| ());
        self.drain_side_channels();
        r
    }

    /// (`Receiver::is_empty` of this tokio version can report false on a drained channel; `len` is exact)
    pub fn pending(&mut self) -> Vec<Queue> {
        let mut v = vec![];
        if self.rx_verify.len() > 0 {
            v.push(Queue::Verify);
        }
        if self.rx_consensus.len() > 0 {
            v.push(Queue::Consensus);
        }
        if self.rx_router.len() > 0 {
            v.push(Queue::Router);
        }
        v
    }

    /// run one queued inter-thread event of the chosen queue
    pub async fn step(&mut self, q: Queue) -> Result<bool, PanicInfo> {
        self.handler_calls += 1;
        let r = match q {
            Queue::Verify => match self.rx_verify.try_recv() {
                Ok(ev) => catch_async(self.verification.process_event(ev)).await.map(|_| true),
                Err(_) => Ok(false),
            },
            Queue::Consensus => match self.rx_consensus.try_recv() {
                Ok(ev) => catch_async(self.consensus.process_event(ev)).await.map(|_| true),
                Err(_) => Ok(false),
            },
            Queue::Router => match self.rx_router.try_recv() {
                Ok(ev) => catch_async(self.routing.process_event(ev)).await.map(|_| true),
                Err(_) => Ok(false),
            },
            Queue::Miner => {
                if let Ok(MiningEvent::LongestChainBlockAdded { hash, block_id, .. }) = self.rx_miner.try_recv() {
                    self.miner_target = Some((block_id, hash));
                }
                Ok(false)
            }
        };
        self.drain_side_channels();
        r
    }

    /// run queued events in FIFO-ish fixed order until quiescent (bounded)
    pub async fn settle(&mut self, max_steps: usize) -> Result<usize, PanicInfo> {
        let mut n = 0;
        while n < max_steps {
            let p = self.pending();
            if p.is_empty() {
                break;
            }
            self.step(p[0]).await?;
            n += 1;
        }
        Ok(n)
    }

    /// advance virtual time and run the timer handlers (routing, consensus)
    pub async fn tick(&mut self, ms: u64) -> Result<(), PanicInfo> {
        self.clock.advance(ms);
        self.handler_calls += 2;
        let d = Duration::from_millis(ms);
        catch_async(self.routing.process_timer_event(d)).await?;
        catch_async(self.consensus.process_timer_event(d)).await?;
        self.drain_side_channels();
        Ok(())
    }

    pub async fn tip(&self) -> (u64, Hash) {
        let c = self.chain.read().await;
        (c.get_latest_block_id(), c.get_latest_block_hash())
    }
}

impl Node {
    /// add a block straight into this node's blockchain (used to give a node its starting chain)
    pub async fn add_block_direct(&mut self, bytes: &[u8]) -> Option<Added> {
        use saito_core::core::consensus::block::Block;
        use std::ops::Deref;
        let block = Block::deserialize_from_net(bytes).ok()?;
        let cfg = self.cfg.read().await;
        let mut chain = self.chain.write().await;
        let mut mempool = self.mempool.write().await;
        let r = chain.add_block(block, &mut self.consensus.storage, &mut mempool, cfg.deref()).await;
        Some(Added::from(&r))
    }

    /// register an authenticated, connected peer with a block fetch url (state a completed
    /// handshake leaves behind)
    pub async fn add_connected_peer(&mut self, index: u64, key: &PK, url: &str) {
        use saito_core::core::consensus::peers::peer::{Peer, PeerStatus};
        let mut peers = self.peers.write().await;
        let mut p = Peer::new(index);
        p.peer_status = PeerStatus::Connected;
        p.public_key = Some(*key);
        p.block_fetch_url = url.to_string();
        peers.address_to_peers.insert(*key, index);
        peers.index_to_peers.insert(index, p);
    }
}
