//! Per-shard result record: counters, distinct non-trivial case hashes, samples, violations.
//! The python driver (`bin/check`) aggregates the shards into `evidence/<ID>.json`.
use std::collections::{BTreeMap, BTreeSet};

use serde_json::{json, Value};

pub fn fnv(data: &[u8]) -> u64 {
    let mut h: u64 = 0xcbf2_9ce4_8422_2325;
    for b in data {
        h ^= *b as u64;
        h = h.wrapping_mul(0x0000_0100_0000_01b3);
    }
    h
}

pub fn sig_hash(s: &str) -> u64 {
    fnv(s.as_bytes())
}

#[derive(Default)]
pub struct Report {
    pub property: String,
    pub tier: String,
    pub seed: u64,
    pub shard: u64,
    pub evaluations: u64,
    pub distinct: BTreeSet<u64>,
    pub counters: BTreeMap<String, u64>,
    pub maxima: BTreeMap<String, u64>,
    pub samples: Vec<Value>,
    pub violations: Vec<Value>,
    pub notes: Vec<String>,
    pub inconclusive: Vec<String>,
    pub exhaustive: bool,
    max_samples: usize,
    seen_violation_sigs: BTreeMap<String, u64>,
}

impl Report {
    pub fn new(property: &str, tier: &str, seed: u64, shard: u64) -> Report {
        Report {
            property: property.to_string(),
            tier: tier.to_string(),
            seed,
            shard,
            max_samples: 6,
            ..Default::default()
        }
    }
    pub fn eval(&mut self) {
        self.evaluations += 1;
    }
    pub fn evals(&mut self, n: u64) {
        self.evaluations += n;
    }
    /// a distinct non-trivial case, identified by a textual shape signature
    pub fn nontrivial(&mut self, shape: &str) {
        self.distinct.insert(sig_hash(shape));
    }
    pub fn count(&mut self, name: &str) {
        *self.counters.entry(name.to_string()).or_insert(0) += 1;
    }
    pub fn add(&mut self, name: &str, n: u64) {
        *self.counters.entry(name.to_string()).or_insert(0) += n;
    }
    pub fn get(&self, name: &str) -> u64 {
        *self.counters.get(name).unwrap_or(&0)
    }
    pub fn max(&mut self, name: &str, v: u64) {
        let e = self.maxima.entry(name.to_string()).or_insert(0);
        if v > *e {
            *e = v;
        }
    }
    pub fn sample(&mut self, v: Value) {
        if self.samples.len() < self.max_samples {
            self.samples.push(v);
        }
    }
    pub fn note(&mut self, s: &str) {
        if self.notes.len() < 50 {
            self.notes.push(s.to_string());
        }
    }
    pub fn inconclusive(&mut self, why: &str) {
        if self.inconclusive.len() < 50 {
            self.inconclusive.push(why.to_string());
        }
    }
    /// Record a violation. `signature` identifies the failing input class (no line numbers,
    /// no hashes); at most 3 witnesses are kept per signature, the rest are only counted.
    pub fn violation(&mut self, signature: &str, detail: &str, replay: Value) {
        let n = self
            .seen_violation_sigs
            .entry(signature.to_string())
            .or_insert(0);
        *n += 1;
        if *n <= 2 {
            self.violations.push(json!({
                "signature": signature,
                "detail": detail,
                "replay": replay,
            }));
        }
    }
    pub fn violation_count(&self) -> u64 {
        self.seen_violation_sigs.values().sum()
    }
    pub fn to_json(&self) -> Value {
        let sig_counts: BTreeMap<String, u64> = self.seen_violation_sigs.clone();
        json!({
            "property": self.property,
            "tier": self.tier,
            "seed": self.seed,
            "shard": self.shard,
            "evaluations": self.evaluations,
            "distinct": self.distinct.iter().map(|h| format!("{:016x}", h)).collect::<Vec<_>>(),
            "counters": self.counters,
            "maxima": self.maxima,
            "samples": self.samples,
            "violations": self.violations,
            "violation_counts": sig_counts,
            "notes": self.notes,
            "inconclusive": self.inconclusive,
            "exhaustive": self.exhaustive,
        })
    }
}

pub fn hex(b: &[u8]) -> String {
    hex::encode(b)
}
pub fn short(b: &[u8]) -> String {
    let h = hex::encode(b);
    h[..h.len().min(12)].to_string()
}
