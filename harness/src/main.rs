use std::time::Instant;

use svh::props::{dispatch, Ctx};
use svh::report::Report;

#[global_allocator]
static GLOBAL: svh::alloc::Counting = svh::alloc::Counting;

fn arg(args: &[String], name: &str) -> Option<String> {
    args.iter()
        .position(|a| a == name)
        .and_then(|i| args.get(i + 1).cloned())
}

fn main() {
    let args: Vec<String> = std::env::args().collect();
    if args.len() < 2 {
        eprintln!("usage: svh <PROPERTY> [--seed N] [--tier quick|thorough] [--shard i] [--shards n] [--out file] [--replay file] [--build prod|chk]");
        std::process::exit(2);
    }
    let prop = args[1].clone();
    let ctx = Ctx {
        seed: arg(&args, "--seed").and_then(|s| s.parse().ok()).unwrap_or(1),
        thorough: arg(&args, "--tier").map(|t| t == "thorough").unwrap_or(false),
        shard: arg(&args, "--shard").and_then(|s| s.parse().ok()).unwrap_or(0),
        shards: arg(&args, "--shards").and_then(|s| s.parse().ok()).unwrap_or(1),
        replay: arg(&args, "--replay"),
        build: arg(&args, "--build").unwrap_or_else(|| {
            if cfg!(debug_assertions) {
                "chk".to_string()
            } else {
                "prod".to_string()
            }
        }),
    };
    let out = arg(&args, "--out");
    svh::io::set_io_model(
        &arg(&args, "--io-write").unwrap_or_else(|| "inplace".into()),
        &arg(&args, "--io-list").unwrap_or_else(|| "lists-tmp".into()),
        &arg(&args, "--io-short-wallet").unwrap_or_else(|| "panics".into()),
    );
    svh::panics::install();
    svh::watch::configure(out.clone(), &prop, ctx.tier(), ctx.seed, ctx.shard, &ctx.build);
    let started = Instant::now();
    let mut rep = Report::new(&prop, ctx.tier(), ctx.seed, ctx.shard);
    let threads: usize = arg(&args, "--threads").and_then(|s| s.parse().ok()).unwrap_or(0);
    let rt = if threads > 0 {
        tokio::runtime::Builder::new_multi_thread()
            .worker_threads(threads)
            .enable_all()
            .build()
            .unwrap()
    } else {
        tokio::runtime::Builder::new_current_thread()
            .enable_all()
            .build()
            .unwrap()
    };
    svh::io::set_stale_tmp(arg(&args, "--io-stale-tmp").map(|v| v == "error").unwrap_or(false));
    if let Some(path) = arg(&args, "--dump-corpus") {
        let n = rt.block_on(svh::props::c10::dump_corpus(ctx.seed, &path));
        println!("corpus inputs: {}", n);
        return;
    }
    let known = match rt.block_on(async { svh::panics::catch_async(dispatch(&prop, &ctx, &mut rep)).await }) {
        Ok(k) => k,
        Err(p) => {
            // a panic that no monitor caught: a harness defect or an unguarded call, never a verdict
            eprintln!("uncaught panic at {}:{}: {} (first repo frame: {})", p.file, p.line, p.message, p.repo_frame);
            std::process::exit(101);
        }
    };
    if !known {
        eprintln!("unknown property {}", prop);
        std::process::exit(2);
    }
    let mut v = rep.to_json();
    v["wall_s"] = serde_json::json!(started.elapsed().as_secs_f64());
    v["build"] = serde_json::json!(ctx.build);
    let text = serde_json::to_string(&v).unwrap();
    match out {
        Some(path) => std::fs::write(path, text).expect("write result"),
        None => println!("{}", text),
    }
}
