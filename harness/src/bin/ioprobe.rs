//! ioprobe — exercises the REAL storage handler of the native node
//! (`saito_rust::rust_io_handler::RustIOHandler`) in the current directory so that the driver can
//! observe, from an strace log of this process, which protocol it uses to put a value on disk
//! (truncate-and-write in place, or temporary file + rename), and reports what the block-file
//! listing and the wallet loader do with the leftovers of an interrupted write.
//! Usage (cwd = a scratch directory): ioprobe
use saito_core::core::consensus::wallet::Wallet;
use saito_core::core::io::interface_io::InterfaceIO;
use saito_rust::rust_io_handler::RustIOHandler;

fn main() {
    let rt = tokio::runtime::Builder::new_current_thread().enable_all().build().unwrap();
    rt.block_on(async {
        let (tx, _rx) = tokio::sync::mpsc::channel(16);
        let io = RustIOHandler::new(tx, 1);
        let dir = io.get_block_dir();
        std::fs::create_dir_all(&dir).unwrap();
        // 1. a block file and the wallet file are written (twice: creation and overwrite)
        eprintln!("PROBE-MARK write-block");
        io.write_value(&format!("{}1700000000000-aaaa.sai", dir), &vec![7u8; 3000]).await.unwrap();
        eprintln!("PROBE-MARK write-wallet-1");
        let mut wallet = Wallet::new([1; 32], [2; 33]);
        io.save_wallet(&mut wallet).await.unwrap();
        eprintln!("PROBE-MARK write-wallet-2");
        io.save_wallet(&mut wallet).await.unwrap();
        eprintln!("PROBE-MARK done-writes");
        // 2. what does the block listing make of the leftovers of an interrupted write?
        std::fs::write(format!("{}1700000000001-bbbb.sai.tmp", dir), b"torn").unwrap();
        let list = io.load_block_file_list().await.unwrap_or_default();
        println!("LISTING {}", list.join(","));
        // 2b. does a leftover temporary file of an interrupted write block the next write of that key?
        std::fs::write("./data/wallet.tmp", b"torn").unwrap();
        match io.save_wallet(&mut wallet).await {
            Ok(()) => println!("STALE-TMP ok"),
            Err(_) => println!("STALE-TMP error"),
        }
        let _ = std::fs::remove_file("./data/wallet.tmp");
        // 3. what does the wallet loader do with a short file?
        std::fs::write("./data/wallet", b"short").unwrap();
        std::panic::set_hook(Box::new(|_| {}));
        let r = std::thread::spawn(move || {
            let mut w2 = Wallet::new([3; 32], [4; 33]);
            let rt2 = tokio::runtime::Builder::new_current_thread().enable_all().build().unwrap();
            rt2.block_on(async { io.load_wallet(&mut w2).await })
        })
        .join();
        match r {
            Err(_) => println!("SHORT-WALLET panics"),
            Ok(Err(_)) => println!("SHORT-WALLET error"),
            Ok(Ok(())) => println!("SHORT-WALLET ok"),
        }
    });
}
