//! Miri slice of C10: runs the wire / disk decoders of saito-core on a pre-generated corpus
//! (intact encodings, truncations, hostile count fields and tag bytes) inside the Miri
//! interpreter, which reports undefined behaviour (out-of-bounds, invalid values, misaligned or
//! dangling accesses, leaks of provenance) that a panic-based monitor cannot see.
//! Usage: cargo +nightly miri run --bin miri_decoders -- <corpus file> <shard> <shards>
//! Panics are caught and counted (they are C10's business in the native run), UB aborts Miri.
use std::panic::{catch_unwind, AssertUnwindSafe};

use saito_core::core::consensus::block::Block;
use saito_core::core::consensus::golden_ticket::GoldenTicket;
use saito_core::core::consensus::hop::Hop;
use saito_core::core::consensus::peers::peer_service::PeerService;
use saito_core::core::consensus::slip::Slip;
use saito_core::core::consensus::transaction::Transaction;
use saito_core::core::consensus::wallet::Wallet;
use saito_core::core::msg::block_request::BlockchainRequest;
use saito_core::core::msg::handshake::{HandshakeChallenge, HandshakeResponse};
use saito_core::core::msg::message::Message;
use saito_core::core::process::version::Version;
use saito_core::core::util::balance_snapshot::BalanceSnapshot;
use saito_core::core::util::serialize::Serialize;

fn unhex(s: &str) -> Vec<u8> {
    (0..s.len() / 2).map(|i| u8::from_str_radix(&s[2 * i..2 * i + 2], 16).unwrap_or(0)).collect()
}

fn decode(name: &str, input: Vec<u8>) -> bool {
    match name {
        "Transaction::deserialize_from_net" => Transaction::deserialize_from_net(&input).is_ok(),
        "Block::deserialize_from_net" => Block::deserialize_from_net(&input).is_ok(),
        "Message::deserialize" => Message::deserialize(input).is_ok(),
        "Slip::deserialize_from_net" => Slip::deserialize_from_net(&input).is_ok(),
        "Hop::deserialize_from_net" => Hop::deserialize_from_net(&input).is_ok(),
        "HandshakeChallenge::deserialize" => HandshakeChallenge::deserialize(&input).is_ok(),
        "HandshakeResponse::deserialize" => HandshakeResponse::deserialize(&input).is_ok(),
        "BlockchainRequest::deserialize" => BlockchainRequest::deserialize(&input).is_ok(),
        "Version::deserialize" => Version::deserialize(&input).is_ok(),
        "PeerService::deserialize_services" => PeerService::deserialize_services(input).is_ok(),
        "GoldenTicket::deserialize_from_net" => {
            let _ = GoldenTicket::deserialize_from_net(&input);
            true
        }
        "Wallet::deserialize_from_disk" => {
            let mut w = Wallet::new([1; 32], [2; 33]);
            w.deserialize_from_disk(&input);
            true
        }
        "BalanceSnapshot::try_from" => match String::from_utf8(input) {
            Ok(s) => BalanceSnapshot::try_from(s).is_ok(),
            Err(_) => false,
        },
        _ => false,
    }
}

fn main() {
    let args: Vec<String> = std::env::args().collect();
    let path = args.get(1).expect("corpus file");
    let shard: usize = args.get(2).and_then(|s| s.parse().ok()).unwrap_or(0);
    let shards: usize = args.get(3).and_then(|s| s.parse().ok()).unwrap_or(1);
    let text = std::fs::read_to_string(path).expect("read corpus");
    std::panic::set_hook(Box::new(|_| {}));
    let (mut ok, mut err, mut panicked, mut n) = (0u64, 0u64, 0u64, 0u64);
    for (i, line) in text.lines().enumerate() {
        if i % shards != shard {
            continue;
        }
        let mut it = line.splitn(2, '\t');
        let name = it.next().unwrap_or("").to_string();
        let bytes = unhex(it.next().unwrap_or(""));
        n += 1;
        match catch_unwind(AssertUnwindSafe(|| decode(&name, bytes))) {
            Ok(true) => ok += 1,
            Ok(false) => err += 1,
            Err(_) => panicked += 1,
        }
    }
    println!("MIRI-DECODERS shard={} inputs={} ok={} err={} panicked={}", shard, n, ok, err, panicked);
}
